(* C05, insertion-date mode: the post-commit volumes of the latest move (by seq) inserted at or before t are the fold of
   the postings inserted at or before t -- given that the clock never goes backwards along the history. *)
From Coq Require Import List ZArith String Bool Lia ZifyBool ZifyNat Sorting.Sorted.
From LV Require Import Base.Util Ledger.Types Ledger.Core Ledger.VolProofs Ledger.PcvProofs Ledger.Invariants Ledger.EffProofs Ledger.Reads Ledger.ReadProofs.
Import ListNotations.
Open Scope Z_scope.

(* ---------- the forward running volumes, move by move ---------- *)
Definition dkeyd (d : mvdata) : key := (md_acc d, md_asset d).
Definition ddelta (d : mvdata) : vol := delta_of (md_amt d) (md_src d).
Definition kd (k : key) (d : mvdata) : vol := if key_eqb (dkeyd d) k then ddelta d else (0, 0).

Definition msrc_of (p : posting) (v : vol) : mvdata := {| md_acc := p_src p; md_asset := p_asset p; md_amt := p_amt p; md_src := true; md_pcv := v |}.
Definition mdst_of (p : posting) (v : vol) : mvdata := {| md_acc := p_dst p; md_asset := p_asset p; md_amt := p_amt p; md_src := false; md_pcv := v |}.
Lemma kd_src k p v : kd k (msrc_of p v) = if key_eqb (skey p) k then (0, p_amt p) else (0, 0). Proof. reflexivity. Qed.
Lemma kd_dst k p v : kd k (mdst_of p v) = if key_eqb (dkey p) k then (p_amt p, 0) else (0, 0). Proof. reflexivity. Qed.
Lemma vsum_cons' x l : vsum (x :: l) = vplus x (vsum l). Proof. reflexivity. Qed.

Lemma fwd_running ps : forall cur pre d post, fwd cur ps = pre ++ d :: post ->
  md_pcv d = vplus (vget cur (dkeyd d)) (vsum (map (kd (dkeyd d)) (pre ++ [d]))).
Proof.
  induction ps as [|p r IH]; intros cur pre d post H; cbn [fwd] in H; [destruct pre; discriminate|].
  set (c1 := vadd cur (skey p) (0, p_amt p)) in *. set (c2 := vadd c1 (dkey p) (p_amt p, 0)) in *.
  fold (msrc_of p (vget c1 (skey p))) in H. fold (mdst_of p (vget c2 (dkey p))) in H.
  destruct pre as [|x pre].
  - cbn [app] in H. inversion H; subst d. cbn [app map]. rewrite vsum_cons', kd_src. cbn [vsum fold_right].
    change (dkeyd (msrc_of p (vget c1 (skey p)))) with (skey p). unfold key_eqb. rewrite pair_eqb_refl, vplus_0_r.
    unfold c1. apply vget_vadd_same.
  - cbn [app] in H. inversion H as [[Hx H']]. destruct pre as [|y pre].
    + cbn [app] in H'. inversion H'; subst d. clear H H'. cbn [app map]. rewrite !vsum_cons', kd_src, kd_dst. cbn [vsum fold_right].
      change (dkeyd (mdst_of p (vget c2 (dkey p)))) with (dkey p). change (md_pcv (mdst_of p (vget c2 (dkey p)))) with (vget c2 (dkey p)).
      unfold key_eqb at 2. rewrite pair_eqb_refl, vplus_0_r. unfold c2. rewrite vget_vadd_same. unfold c1. rewrite vget_vadd.
      destruct (key_eqb (skey p) (dkey p)); [rewrite vplus_assoc | rewrite vplus_0_l]; reflexivity.
    + cbn [app] in H'. inversion H' as [[Hy H'']]. specialize (IH c2 pre d post H''). rewrite IH.
      cbn [app map]. rewrite !vsum_cons', kd_src, kd_dst.
      unfold c2. rewrite vget_vadd. unfold c1. rewrite vget_vadd.
      destruct (key_eqb (skey p) (dkeyd d)), (key_eqb (dkey p) (dkeyd d)); rewrite ?vplus_assoc, ?vplus_0_l; reflexivity.
Qed.

(* ---------- running volumes by insertion order: the invariant of the moves table ---------- *)
Definition core := (Z * Z * addr * asset * Z * bool * Z * Z * vol)%type.
Definition cseq (c : core) : Z := let '(s, _, _, _, _, _, _, _, _) := c in s.
Definition ckey (c : core) : key := let '(_, _, a, x, _, _, _, _, _) := c in (a, x).
Definition cdelta (c : core) : vol := let '(_, _, _, _, n, sr, _, _, _) := c in delta_of n sr.
Definition cpcv (c : core) : vol := let '(_, _, _, _, _, _, _, _, v) := c in v.
Definition cins (c : core) : Z := let '(_, _, _, _, _, _, i, _, _) := c in i.
Definition rtermc (k : key) (bound : Z) (c : core) : vol := if key_eqb (ckey c) k && (cseq c <=? bound) then cdelta c else (0, 0).
(* every row's post_commit_volumes = sum of the deltas of the rows of its account/asset with seq at or below its own *)
Definition RVc (cs : list core) : Prop := forall c, In c cs -> cpcv c = vsum (map (rtermc (ckey c) (cseq c)) cs).
Definition RV (ms : list move) : Prop := RVc (map move_core ms).

Fixpoint rows_of (txid ins eff : Z) (seq : Z) (ds : list mvdata) : list core :=
  match ds with
  | [] => []
  | d :: r => (seq, txid, md_acc d, md_asset d, md_amt d, md_src d, ins, eff, md_pcv d) :: rows_of txid ins eff (seq + 1) r
  end.

Lemma insert_rows_cores b txid ins eff ds : forall ms seq ms1 newr seq',
  insert_rows b ms seq txid ins eff ds = (ms1, newr, seq') ->
  map move_core newr = rows_of txid ins eff seq ds /\ seq' = seq + Z.of_nat (List.length ds).
Proof.
  induction ds as [|d r IH]; intros ms seq ms1 newr seq' H; cbn [insert_rows] in H.
  - inversion H; subst. cbn. split; [reflexivity | lia].
  - match type of H with context [insert_rows ?b0 ?m0 ?s0 ?t0 ?i0 ?e0 r] =>
      destruct (insert_rows b0 m0 s0 t0 i0 e0 r) as [[ms' nr] sq] eqn:E end.
    inversion H; subst. destruct (IH _ _ _ _ _ E) as (A & B). cbn [map rows_of List.length]. rewrite A. split; [reflexivity | lia].
Qed.

Lemma insert_moves_cores b ms seq txid ins eff ds ms2 newr seq' :
  insert_moves b ms seq txid ins eff ds = (ms2, newr, seq') ->
  map move_core ms2 = map move_core ms ++ rows_of txid ins eff seq ds /\ seq' = seq + Z.of_nat (List.length ds).
Proof.
  unfold insert_moves. destruct (insert_rows b ms seq txid ins eff ds) as [[ms1 nr] sq] eqn:E. intros H. injection H as <- <- <-.
  pose proof (insert_rows_app _ _ _ _ _ _ _ _ _ _ E) as Happ. destruct (insert_rows_cores _ _ _ _ _ _ _ _ _ _ E) as (Hc & Hs).
  split; [|exact Hs].
  assert (G : map move_core (if b then fold_left bump_later nr ms1 else ms1) = map move_core ms1) by (destruct b; [apply fold_bump_core | reflexivity]).
  rewrite G, Happ, map_app, Hc. reflexivity.
Qed.

Lemma rows_sum_all txid ins eff k bound : forall ds seq, seq + Z.of_nat (List.length ds) - 1 <= bound ->
  vsum (map (rtermc k bound) (rows_of txid ins eff seq ds)) = vsum (map (kd k) ds).
Proof.
  induction ds as [|d r IH]; intros seq H; [reflexivity|]. cbn [rows_of map List.length] in *. rewrite !vsum_cons', IH by lia. f_equal.
  unfold rtermc, kd, ckey, cseq, cdelta, dkeyd, ddelta. replace (seq <=? bound) with true by lia. rewrite andb_true_r. reflexivity.
Qed.

Lemma rows_sum_none txid ins eff k bound : forall ds seq, bound < seq ->
  vsum (map (rtermc k bound) (rows_of txid ins eff seq ds)) = (0, 0).
Proof.
  induction ds as [|d r IH]; intros seq H; [reflexivity|]. cbn [rows_of map]. rewrite vsum_cons', IH by lia.
  unfold rtermc, cseq. replace (seq <=? bound) with false by lia. rewrite andb_false_r. reflexivity.
Qed.

Lemma rows_of_app txid ins eff : forall a b seq,
  rows_of txid ins eff seq (a ++ b) = rows_of txid ins eff seq a ++ rows_of txid ins eff (seq + Z.of_nat (List.length a)) b.
Proof.
  induction a as [|x xs IH]; intros b seq; cbn [app rows_of List.length].
  - replace (seq + Z.of_nat 0) with seq by lia. reflexivity.
  - rewrite IH. do 3 f_equal. lia.
Qed.

Lemma rows_of_in txid ins eff : forall ds seq c, In c (rows_of txid ins eff seq ds) ->
  exists pre d post, ds = pre ++ d :: post /\ c = (seq + Z.of_nat (List.length pre), txid, md_acc d, md_asset d, md_amt d, md_src d, ins, eff, md_pcv d).
Proof.
  induction ds as [|d r IH]; intros seq c H; [destruct H|]. cbn [rows_of] in H. destruct H as [<-|H].
  - exists [], d, r. split; [reflexivity|]. cbn. replace (seq + 0) with seq by lia. reflexivity.
  - destruct (IH _ _ H) as (pre & d0 & post & -> & ->). exists (d :: pre), d0, post. split; [reflexivity|]. cbn [List.length]. do 8 f_equal. lia.
Qed.

Definition csum (k : key) (cs : list core) : vol := vsum (map (fun c => if key_eqb (ckey c) k then cdelta c else (0, 0)) cs).

(* appending the rows of one transaction (forward running volumes from [vols]) keeps the invariant *)
Lemma rv_append cs txid ins eff seq vols ps :
  RVc cs -> Forall (fun c => cseq c < seq) cs -> (forall k, vget vols k = csum k cs) ->
  RVc (cs ++ rows_of txid ins eff seq (fwd vols ps)).
Proof.
  intros HR Hb Hv c Hc. rewrite map_app, vsum_app. apply in_app_or in Hc. destruct Hc as [Hc|Hc].
  - rewrite (HR c Hc). rewrite rows_sum_none; [rewrite vplus_0_r; reflexivity|]. rewrite Forall_forall in Hb. exact (Hb c Hc).
  - destruct (rows_of_in _ _ _ _ _ _ Hc) as (pre & d & post & Hds & ->).
    cbn [cpcv ckey cseq]. rewrite (fwd_running ps vols pre d post Hds).
    f_equal.
    + fold (dkeyd d). rewrite Hv. unfold csum. apply vsum_map_ext_in. intros c' Hc'. unfold rtermc.
      rewrite Forall_forall in Hb. specialize (Hb c' Hc'). remember (cseq c') as x. replace (x <=? seq + Z.of_nat (List.length pre)) with true by lia. rewrite andb_true_r. reflexivity.
    + rewrite Hds. replace (pre ++ d :: post) with ((pre ++ [d]) ++ post) by (rewrite <- app_assoc; reflexivity).
      rewrite rows_of_app. symmetry. rewrite map_app, vsum_app. fold (dkeyd d).
      rewrite rows_sum_all by (rewrite app_length; cbn; lia).
      rewrite rows_sum_none by (rewrite app_length; cbn; lia). rewrite vplus_0_r. reflexivity.
Qed.

(* ---------- lifting to operations ---------- *)
Definition mv_rel2 (f : features) (now : Z) (s s' : state) : Prop :=
  (s_moves s' = s_moves s /\ s_next_seq s <= s_next_seq s') \/
  (f_moves f = true /\ exists txid eff ps newr,
     insert_moves (f_pcev f) (s_moves s) (s_next_seq s) txid now eff (fwd (s_vols s) ps) = (s_moves s', newr, s_next_seq s')).

Lemma commit_mv_rel2 f now s ps md ts ref s1 o : commit_transaction f now s ps md ts ref = (s1, o) -> mv_rel2 f now s s1.
Proof.
  unfold commit_transaction. intros H.
  destruct (negb (ref =? "")%string && ref_taken (s_txs s) ref).
  - inversion H; subst. left. cbn. split; [reflexivity | lia].
  - destruct (f_moves f) eqn:Fm.
    + rewrite commit_moves_forward in H.
      destruct (insert_moves (f_pcev f) (s_moves s) (s_next_seq s) (s_next_tx s) now (opt_default now ts) (fwd (s_vols s) ps)) as [[mv nr] sq] eqn:E.
      inversion H; subst. right. split; [exact Fm|]. cbn [s_moves s_next_seq]. do 4 eexists. exact E.
    + inversion H; subst. left. cbn. split; [reflexivity | lia].
Qed.

Lemma mv_rel2_after_same f now s s1 s2 : s_moves s1 = s_moves s -> s_next_seq s1 = s_next_seq s -> s_vols s1 = s_vols s ->
  mv_rel2 f now s1 s2 -> mv_rel2 f now s s2.
Proof. intros E1 E2 E3 [[A B]|(A & B)]; [left | right]; rewrite <- ?E1, <- ?E2, <- ?E3; [split|split]; assumption. Qed.
Lemma mv_rel2_then_same f now s s1 s2 : mv_rel2 f now s s1 -> s_moves s2 = s_moves s1 -> s_next_seq s2 = s_next_seq s1 -> mv_rel2 f now s s2.
Proof. intros [[A B]|(A & B)] E1 E2; [left | right]; rewrite E1, E2; [split|split]; assumption. Qed.

Ltac mvsame2 := left; split; [reflexivity | cbn; lia].
Lemma run_input_mv_rel2 f now s i : mv_rel2 f now s (outcome_state (run_input f now s i) s).
Proof.
  script_split i.
  { simpl. unfold create_tx. destruct ps as [|p ps']; [mvsame2|].
    destruct (feasible force (s_vols s) (p :: ps')); simpl; [|mvsame2].
    destruct (commit_transaction f now s (p :: ps') md ts ref) as [s1 [t|]] eqn:E; simpl.
    + pose proof (upsert_tx_accounts_frame f now s1 t amd) as (_ & _ & Hm & _ & _ & _ & _ & Hq).
      eapply mv_rel2_then_same; [eapply commit_mv_rel2; exact E | exact Hm | exact Hq].
    + eapply commit_mv_rel2; exact E. }
  destruct i as [ps ts ref md amd force | id force at_eff rmeta | [a|id] md | [a|id] k | ps ts ref md amd force smd samd];
    [apply Hc | | | | | | script_bullet Hc]; simpl.
  - destruct (find_tx (s_txs s) id) as [t|]; [|mvsame2].
    destruct (t_rev t); [mvsame2|].
    set (mark := fun x : tx => tx_with x (t_meta x) now (Some now)).
    match goal with |- context [match ?c with RCOk => _ | RCInsufficient => _ | RCPanic => _ end] => destruct c end;
      cbn [outcome_state]; try mvsame2.
    match goal with |- context [commit_transaction ?a ?b ?c ?d ?e ?g ?h] => destruct (commit_transaction a b c d e g h) as [s2 [r|]] eqn:E end; cbn [outcome_state];
      (eapply mv_rel2_after_same; [| | |eapply commit_mv_rel2; exact E]; reflexivity).
  - mvsame2.
  - destruct (find_tx (s_txs s) id) as [t|]; [|mvsame2].
    destruct (mcontains (t_meta t) md); simpl; mvsame2.
  - destruct (find_account (s_accounts s) a); simpl; mvsame2.
  - destruct (find_tx (s_txs s) id) as [t|]; [|mvsame2].
    destruct (mget (t_meta t) k); simpl; mvsame2.
Qed.

Lemma mv_rel2_seq_mono f now s s' : mv_rel2 f now s s' -> s_next_seq s <= s_next_seq s'.
Proof.
  intros [[_ B]|(_ & txid & eff & ps & newr & E)]; [exact B|].
  destruct (insert_moves_cores _ _ _ _ _ _ _ _ _ _ E) as (_ & Hs). lia.
Qed.

Lemma step_mv_rel2 f now s o s' r : step f now s o = SR s' r -> mv_rel2 f now s s'.
Proof.
  intros H. unfold step in H.
  destruct (find_ik (s_logs s) (o_ik o)) as [l|].
  - destruct (input_eq_dec (l_input l) (o_in o)); inversion H; subst; mvsame2.
  - pose proof (run_input_mv_rel2 f now s (o_in o)) as HR.
    destruct (run_input f now s (o_in o)) as [s1 p|s1 e|]; cbn [outcome_state] in *; [| |discriminate].
    + pose proof (mv_rel2_seq_mono _ _ _ _ HR) as Hm.
      destruct (o_dry o); inversion H; subst.
      * left. cbn. split; [reflexivity | exact Hm].
      * eapply mv_rel2_then_same; [exact HR | reflexivity | reflexivity].
    + pose proof (mv_rel2_seq_mono _ _ _ _ HR) as Hm. inversion H; subst. left. cbn. split; [reflexivity | exact Hm].
Qed.

(* ---------- the state invariant ---------- *)
Record RI (s : state) (T : Z) : Prop := {
  ri_rv : RV (s_moves s);
  ri_below : Forall (fun c => cseq c < s_next_seq s) (map move_core (s_moves s));
  ri_ins_sorted : StronglySorted Z.le (map m_ins (s_moves s));
  ri_ins_le : Forall (fun m => m_ins m <= T) (s_moves s);
  ri_seq_sorted : StronglySorted Z.lt (map m_seq (s_moves s))
}.

Lemma csum_is_vols s k : MT s -> InvT s -> vget (s_vols s) k = csum k (map move_core (s_moves s)).
Proof.
  intros HM HT. rewrite (inv_vols s HT k). unfold all_postings. rewrite <- vsum_tx_sigs. unfold MT in HM. rewrite <- HM.
  unfold csum. rewrite !map_map. apply vsum_map_ext_in. intros m _. reflexivity.
Qed.

Lemma sorted_le_app (a b : list Z) T : StronglySorted Z.le a -> Forall (fun x => x <= T) a -> StronglySorted Z.le b -> Forall (fun x => T <= x) b ->
  StronglySorted Z.le (a ++ b).
Proof.
  induction a as [|x xs IH]; intros Ha Hla Hb Hlb; cbn [app]; [exact Hb|].
  inversion Ha as [|? ? Hs Hall]; subst. inversion Hla as [|? ? Hx Hxs]; subst. constructor; [apply IH; assumption|].
  apply Forall_app. split; [exact Hall|]. eapply Forall_impl; [|exact Hlb]. cbn. intros y Hy. lia.
Qed.

Lemma sorted_lt_app (a b : list Z) T : StronglySorted Z.lt a -> Forall (fun x => x < T) a -> StronglySorted Z.lt b -> Forall (fun x => T <= x) b ->
  StronglySorted Z.lt (a ++ b).
Proof.
  induction a as [|x xs IH]; intros Ha Hla Hb Hlb; cbn [app]; [exact Hb|].
  inversion Ha as [|? ? Hs Hall]; subst. inversion Hla as [|? ? Hx Hxs]; subst. constructor; [apply IH; assumption|].
  apply Forall_app. split; [exact Hall|]. eapply Forall_impl; [|exact Hlb]. cbn. intros y Hy. lia.
Qed.

Lemma rows_of_seqs txid ins eff : forall ds seq,
  StronglySorted Z.lt (map cseq (rows_of txid ins eff seq ds)) /\ Forall (fun x => seq <= x) (map cseq (rows_of txid ins eff seq ds)) /\
  Forall (fun c => cseq c < seq + Z.of_nat (List.length ds)) (rows_of txid ins eff seq ds) /\
  Forall (fun c => cins c = ins) (rows_of txid ins eff seq ds).
Proof.
  induction ds as [|d r IH]; intros seq; cbn [rows_of map List.length]; [repeat split; constructor|].
  destruct (IH (seq + 1)) as (A & B & C & D). repeat split.
  - constructor; [exact A|]. eapply Forall_impl; [|exact B]. cbn. intros y Hy. lia.
  - constructor; [cbn; lia|]. eapply Forall_impl; [|exact B]. cbn. intros y Hy. lia.
  - constructor; [cbn; lia|]. eapply Forall_impl; [|exact C]. cbn. intros y Hy. lia.
  - constructor; [reflexivity | exact D].
Qed.

Lemma map_core_proj {A} (g : core -> A) (h : move -> A) ms : (forall m, g (move_core m) = h m) -> map g (map move_core ms) = map h ms.
Proof. intros H. rewrite map_map. apply map_ext. exact H. Qed.

Theorem step_ri f now s o s' r T : f_moves f = true -> T <= now ->
  MT s -> InvT s -> RI s T -> step f now s o = SR s' r -> RI s' now.
Proof.
  intros Fm HT HM HI [H1 H2 H3 H4 H5] H. pose proof (step_mv_rel2 _ _ _ _ _ _ H) as [[A B]|(_ & txid & eff & ps & newr & E)].
  - constructor; rewrite ?A; try assumption.
    + eapply Forall_impl; [|exact H2]. cbn. intros c Hc. lia.
    + eapply Forall_impl; [|exact H4]. cbn. intros m Hm. lia.
  - destruct (insert_moves_cores _ _ _ _ _ _ _ _ _ _ E) as (Hc & Hs).
    destruct (rows_of_seqs txid now eff (fwd (s_vols s) ps) (s_next_seq s)) as (R1 & R2 & R3 & R4).
    constructor.
    + unfold RV. rewrite Hc. apply rv_append; [exact H1 | exact H2 | intros k; apply csum_is_vols; assumption].
    + rewrite Hc, Hs. apply Forall_app. split; [eapply Forall_impl; [|exact H2]; cbn; intros c Hcc; lia | exact R3].
    + rewrite <- (map_core_proj cins m_ins) by (intros m; reflexivity). rewrite Hc, map_app.
      apply (sorted_le_app _ _ now).
      * rewrite (map_core_proj cins m_ins) by (intros m; reflexivity). exact H3.
      * rewrite (map_core_proj cins m_ins) by (intros m; reflexivity). rewrite Forall_map. eapply Forall_impl; [|exact H4]. cbn. intros m Hm. lia.
      * clear -R4. induction R4 as [|c l Hc Hl IH]; cbn [map]; constructor; [exact IH|].
        rewrite Forall_map. eapply Forall_impl; [|exact Hl]. cbn. intros y Hy. rewrite Hc, Hy. lia.
      * rewrite Forall_map. eapply Forall_impl; [|exact R4]. cbn. intros y Hy. lia.
    + assert (G : Forall (fun c => cins c <= now) (map move_core (s_moves s'))).
      { rewrite Hc. apply Forall_app. split.
        - rewrite Forall_map. eapply Forall_impl; [|exact H4]. cbn. intros m Hm. change (m_ins m <= now). lia.
        - eapply Forall_impl; [|exact R4]. cbn. intros y Hy. lia. }
      rewrite Forall_map in G. exact G.
    + rewrite <- (map_core_proj cseq m_seq) by (intros m; reflexivity). rewrite Hc, map_app.
      apply (sorted_lt_app _ _ (s_next_seq s)).
      * rewrite (map_core_proj cseq m_seq) by (intros m; reflexivity). exact H5.
      * rewrite Forall_map. exact H2.
      * exact R1.
      * exact R2.
Qed.

(* ---------- histories whose clock never goes backwards ---------- *)
Fixpoint mono (T : Z) (h : list (Z * op)) : Prop :=
  match h with [] => True | no :: r => T <= fst no /\ mono (fst no) r end.

Lemma ri_init T : RI init_state T.
Proof. constructor; cbn; try constructor. intros c []. Qed.

Theorem run_ri f h T0 : f_moves f = true -> mono T0 h -> exists T, RI (run f h) T.
Proof.
  intros Fm. unfold run.
  assert (G : forall h s T, Inv s -> MT s -> RI s T -> mono T h ->
     exists T', RI (fold_left (fun s no => match step f (fst no) s (snd no) with SR s' _ => s' | SPanic => s end) h s) T').
  { clear h. induction h as [|[now o] r IH]; intros s T HI HM HR Hm; cbn [fold_left]; [exists T; exact HR|].
    cbn [mono fst snd] in *. destruct Hm as [Hle Hm].
    destruct (step f now s o) as [s' res|] eqn:E.
    - apply (IH s' now); [eapply step_inv; eassumption | eapply step_mt; eassumption | | exact Hm].
      eapply step_ri; try eassumption. exact (proj1 HI).
    - apply (IH s now); [exact HI | exact HM | | exact Hm].
      destruct HR as [H1 H2 H3 H4 H5]. constructor; try assumption. eapply Forall_impl; [|exact H4]. cbn. intros m Hmm. lia. }
  intros Hm. apply (G h init_state T0); [apply inv_init | reflexivity | apply ri_init | exact Hm].
Qed.

(* ---------- generic maximum lemma for DISTINCT ON ... first_value ---------- *)
Section Best.
  Variables (later le : move -> move -> bool) (q : move -> bool).
  Hypothesis le_refl : forall m, le m m = true.
  Hypothesis le_trans : forall a b c, le a b = true -> le b c = true -> le a c = true.
  Hypothesis not_later_le : forall b m, later b m = false -> le m b = true.
  Hypothesis later_le : forall b m, later b m = true -> le b m = true.

  Lemma best_fold_spec_gen ms : forall best,
    (match best with Some b => q b = true | None => True end) ->
    match fold_left (best_step later q) ms best with
    | Some r => q r = true /\ (best = Some r \/ In r ms) /\
                (forall b, best = Some b -> le b r = true) /\ (forall m, In m ms -> q m = true -> le m r = true)
    | None => best = None /\ forall m, In m ms -> q m = false
    end.
  Proof.
    induction ms as [|x xs IH]; intros best Hb; cbn [fold_left].
    - destruct best as [b|]; [|split; [reflexivity | intros m []]].
      repeat split; [exact Hb | left; reflexivity | intros b0 E; inversion E; subst; apply le_refl | intros m []].
    - set (best' := best_step later q best x).
      assert (Hb' : match best' with Some b => q b = true | None => True end).
      { unfold best', best_step. destruct (q x) eqn:Q; [|exact Hb].
        destruct best as [b|]; [|exact Q]. destruct (later b x); [exact Q | exact Hb]. }
      specialize (IH best' Hb'). destruct (fold_left (best_step later q) xs best') as [r|].
      + destruct IH as (Qr & Hor & Hge & Hall). split; [exact Qr|].
        assert (Hx : q x = true -> le x r = true).
        { intros Q. unfold best', best_step in Hge. rewrite Q in Hge. destruct best as [b|].
          - destruct (later b x) eqn:L.
            + apply Hge; reflexivity.
            + eapply le_trans; [apply not_later_le; exact L | apply Hge; reflexivity].
          - apply Hge; reflexivity. }
        split; [|split].
        * destruct Hor as [E|Hin]; [|right; right; exact Hin].
          unfold best', best_step in E. destruct (q x); [|left; exact E].
          destruct best as [b|]; [|inversion E; right; left; reflexivity].
          destruct (later b x); [inversion E; right; left; reflexivity | left; exact E].
        * intros b E. subst best. unfold best', best_step in Hge. destruct (q x); [|apply Hge; reflexivity].
          destruct (later b x) eqn:L; [|apply Hge; reflexivity].
          eapply le_trans; [apply later_le; exact L | apply Hge; reflexivity].
        * intros m [->|Hin] Q; [apply Hx; exact Q | apply Hall; assumption].
      + destruct IH as (E & Hall). unfold best', best_step in E. destruct (q x) eqn:Q.
        * destruct best as [b|]; [destruct (later b x); discriminate | discriminate].
        * split; [exact E|]. intros m [->|Hin]; [exact Q | apply Hall; exact Hin].
  Qed.
End Best.

Definition sle (m' m : move) : bool := m_seq m' <=? m_seq m.

Lemma seq_ins_monotone (l : list move) : StronglySorted Z.lt (map m_seq l) -> StronglySorted Z.le (map m_ins l) ->
  forall m m', In m l -> In m' l -> m_seq m' <= m_seq m -> m_ins m' <= m_ins m.
Proof.
  induction l as [|x xs IH]; intros Hs Hi m m' Hm Hm' Hle; [destruct Hm|].
  cbn [map] in Hs, Hi. inversion Hs as [|? ? Hs' Hsa]; subst. inversion Hi as [|? ? Hi' Hia]; subst.
  rewrite Forall_forall in Hsa, Hia.
  destruct Hm as [<-|Hm]; destruct Hm' as [<-|Hm'].
  - lia.
  - specialize (Hsa (m_seq m') (in_map m_seq _ _ Hm')). lia.
  - exact (Hia (m_ins m) (in_map m_ins _ _ Hm)).
  - apply IH; assumption.
Qed.

(* the post-commit volumes read at p in insertion-date mode = sum of the deltas of the moves inserted at or before p *)
Theorem insertion_pit_is_sum s T p k : RI s T ->
  vget (volumes_at s p true) k = vsum (map (fun m => if key_eqb (mkey m) k && (m_ins m <=? p) then mdelta m else (0, 0)) (s_moves s)).
Proof.
  intros [H1 H2 H3 H4 H5]. unfold volumes_at, vget. rewrite aget_map_snd. unfold latest_per_key.
  rewrite (latest_per_key_aget later_seq _ k []). cbn [aget].
  set (ms := s_moves s) in *. set (ms' := filter (fun m => m_ins m <=? p) ms).
  pose proof (best_fold_spec_gen later_seq sle (fun m => key_eqb (mkey m) k)) as G.
  specialize (G (fun m => Z.leb_refl _)).
  assert (Gt : forall a b c, sle a b = true -> sle b c = true -> sle a c = true) by (unfold sle; intros; lia).
  assert (Gn : forall b m, later_seq b m = false -> sle m b = true) by (unfold later_seq, sle; intros; lia).
  assert (Gl : forall b m, later_seq b m = true -> sle b m = true) by (unfold later_seq, sle; intros; lia).
  specialize (G Gt Gn Gl ms' None I).
  destruct (fold_left (best_step later_seq (fun m => key_eqb (mkey m) k)) ms' None) as [r|]; cbn [option_map opt_default].
  - destruct G as (Qr & [E|Hin] & _ & Hmax); [discriminate|].
    apply filter_In in Hin. destruct Hin as [Hin Hp].
    assert (Hpcv : m_pcv r = vsum (map (fun m' => if key_eqb (mkey m') (mkey r) && (m_seq m' <=? m_seq r) then mdelta m' else (0, 0)) ms)).
    { unfold RV, RVc in H1. specialize (H1 (move_core r) (in_map move_core _ _ Hin)). cbn [cpcv move_core] in H1. rewrite H1, map_map.
      apply vsum_map_ext_in. intros m' _. reflexivity. }
    rewrite Hpcv. apply vsum_map_ext_in. intros m' Hm'. apply pair_eqb_eq in Qr. rewrite Qr.
    destruct (key_eqb (mkey m') k) eqn:K; cbn [andb]; [|reflexivity].
    destruct (m_ins m' <=? p) eqn:P.
    + assert (Hs : sle m' r = true) by (apply Hmax; [apply filter_In; split; assumption | exact K]). unfold sle in Hs. rewrite Hs. reflexivity.
    + destruct (m_seq m' <=? m_seq r) eqn:S; [|reflexivity]. exfalso.
      pose proof (seq_ins_monotone ms H5 H3 r m' Hin Hm') as Hmono. lia.
  - destruct G as (_ & Hnone). symmetry. apply vsum_zero. intros m Hm.
    destruct (key_eqb (mkey m) k) eqn:K; cbn [andb]; [|reflexivity].
    destruct (m_ins m <=? p) eqn:P; [|reflexivity].
    rewrite (Hnone m) in K; [discriminate | apply filter_In; split; assumption].
Qed.

Theorem insertion_pit_is_fold f h T0 p k : f_moves f = true -> mono T0 h ->
  vget (volumes_at (run f h) p true) k = fold_postings (postings_in (run f h) {| w_pit := Some p; w_oot := None; w_ins := true |}) k.
Proof.
  intros Fm Hm. destruct (run_ri f h T0 Fm Hm) as (T & HR). rewrite (insertion_pit_is_sum _ T p k HR).
  rewrite (sum_filter_is_group (s_moves (run f h)) (fun m => m_ins m <=? p) k).
  rewrite <- (window_volumes_are_fold (run f h) {| w_pit := Some p; w_oot := None; w_ins := true |} k (run_mt f h Fm)).
  f_equal. f_equal. apply filter_ext. intros m. unfold in_win, mdate. cbn. rewrite andb_true_r. reflexivity.
Qed.
