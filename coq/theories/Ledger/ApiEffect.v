(* From request body to store: the v2 createTransaction handler (postings form) as the composition
   decoder (Ledger/Api.v)  ->  ONE controller operation (Ledger/Core.v step).
   A body rejected by the decoder never reaches the controller: no store call is made. *)
From Coq Require Import List ZArith String Bool.
From LV Require Import Base.Util Ledger.Types Ledger.Core Ledger.Invariants Base.JsonTree Ledger.Api.
Import ListNotations.
Open Scope Z_scope.

Definition core_posting (p : vposting) : Types.posting :=
  {| Types.p_src := vp_src p; Types.p_dst := vp_dst p; Types.p_asset := vp_asset p; Types.p_amt := vp_amt p |}.

Inductive http_answer :=
| Rejected (e : cerr)          (* 400 before any store call *)
| Crashed                      (* panic: recovered as 500 by the router *)
| ScriptPath                   (* accepted Numscript request: executed by the machine, not modelled here (C22..C28) *)
| Answered (r : result).       (* the controller's answer: 200 or a business error *)

Definition handle_v2_create (pt : string -> option Z) (sp : Z -> Z -> string) (f : features) (now : Z) (s : state) (body : ajson) (ik : str) (dry : bool) : state * http_answer :=
  match decode_v2_tx pt sp body with
  | ClientError e => (s, Rejected e)
  | Panic => (s, Crashed)
  | Ok r =>
      match r_postings r with
      | [] => (s, ScriptPath)
      | ps =>
          match step f now s {| o_in := ICreate (map core_posting ps) (r_ts r) (r_ref r) (r_meta r) (r_accmeta r) (r_force r); o_ik := ik; o_dry := dry |} with
          | SR s' res => (s', Answered res)
          | SPanic => (s, Crashed)
          end
      end
  end.

(* every answer other than a success leaves all seven tables as they were *)
Theorem handle_error_no_effect pt sp f now s body ik dry s' a :
  handle_v2_create pt sp f now s body ik dry = (s', a) ->
  match a with Answered (ROk _ _ _) => True | _ => tables s' = tables s end.
Proof.
  unfold handle_v2_create. intros H.
  destruct (decode_v2_tx pt sp body) as [r|e|]; try (injection H as H1 H2; subst; reflexivity).
  destruct (r_postings r) as [|p ps]; [injection H as H1 H2; subst; reflexivity|].
  match type of H with context [step ?f ?n ?s ?o] => destruct (step f n s o) as [s1 res|] eqn:E end.
  - injection H as H1 H2. subst. destruct res as [l t h|e]; [exact I|]. exact (step_error_no_trace _ _ _ _ _ _ E).
  - injection H as H1 H2. subst. reflexivity.
Qed.

(* a client error is decided before the controller is called: the state itself (sequences included) is untouched *)
Theorem handle_rejected_identity pt sp f now s body ik dry s' e :
  handle_v2_create pt sp f now s body ik dry = (s', Rejected e) -> s' = s /\ decode_v2_tx pt sp body = ClientError e.
Proof.
  unfold handle_v2_create. intros H.
  destruct (decode_v2_tx pt sp body) as [r|e'|]; try discriminate.
  - destruct (r_postings r) as [|p ps]; [discriminate|].
    match type of H with context [step ?f ?n ?s ?o] => destruct (step f n s o) as [s1 res|] end; discriminate.
  - injection H as H1 H2. subst. split; reflexivity.
Qed.
