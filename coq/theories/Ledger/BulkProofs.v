(* Proofs about Ledger/Bulk.v, for every element list and every per-element step function. *)
From Coq Require Import List Bool Arith Lia.
From LV Require Import Ledger.Bulk.
Import ListNotations.

Section BulkProofs.
  Context {state elem res : Type}.
  Variable exec : state -> elem -> state * res.
  Variable is_ok : res -> bool.
  Variable cancelled : res.
  Variable rollback : state -> state -> state.
  Hypothesis cancelled_not_ok : is_ok cancelled = false.

  Notation run_seq := (run_seq exec is_ok cancelled).
  Notation run_bulk := (run_bulk exec is_ok cancelled rollback).
  Notation run_sched := (run_sched exec is_ok cancelled).
  Notation exec_all := (exec_all exec).
  Notation results_all := (results_all exec).
  Notation standalone := (standalone exec).

  Lemma exec_all_app s a b : exec_all s (a ++ b) = exec_all (exec_all s a) b.
  Proof. unfold Bulk.exec_all. apply fold_left_app. Qed.

  Lemma results_all_length s es : length (results_all s es) = length es.
  Proof. revert s. induction es as [|e r IH]; intros s; simpl; [reflexivity | rewrite IH; reflexivity]. Qed.

  Lemma results_all_app s a b : results_all s (a ++ b) = results_all s a ++ results_all (exec_all s a) b.
  Proof. revert s. induction a as [|e a IH]; intros s; simpl; [reflexivity|]. rewrite IH. reflexivity. Qed.

  (* exactly one result per element *)
  Lemma run_seq_length cont es : forall s err s' rs err',
    run_seq cont s err es = (s', rs, err') -> length rs = length es.
  Proof.
    induction es as [|e r IH]; intros s err s' rs err' H; simpl in H.
    - inversion H; reflexivity.
    - destruct (err && negb cont).
      + destruct (run_seq cont s err r) as [[s2 rs2] e2] eqn:E. inversion H; subst. simpl. f_equal. eapply IH; exact E.
      + destruct (exec s e) as [s1 x]. destruct (run_seq cont s1 (err || negb (is_ok x)) r) as [[s2 rs2] e2] eqn:E.
        inversion H; subst. simpl. f_equal. eapply IH; exact E.
  Qed.

  (* after a failure without continueOnFailure nothing more is processed *)
  Lemma run_seq_stopped es : forall s, run_seq false s true es = (s, repeat cancelled (length es), true).
  Proof. induction es as [|e r IH]; intros s; simpl; [reflexivity | rewrite IH; reflexivity]. Qed.

  (* the returned flag is hasError *)
  Lemma run_seq_flag cont es : forall s err s' rs err',
    run_seq cont s err es = (s', rs, err') -> err' = err || negb (forallb is_ok rs).
  Proof.
    induction es as [|e r IH]; intros s err s' rs err' H; simpl in H.
    - inversion H; subst. simpl. rewrite orb_false_r. reflexivity.
    - destruct (err && negb cont) eqn:Ec.
      + destruct (run_seq cont s err r) as [[s2 rs2] e2] eqn:E. inversion H; subst. simpl.
        rewrite cancelled_not_ok. simpl. apply andb_true_iff in Ec. destruct Ec as [-> _]. simpl.
        rewrite (IH _ _ _ _ _ E). reflexivity.
      + destruct (exec s e) as [s1 x]. destruct (run_seq cont s1 (err || negb (is_ok x)) r) as [[s2 rs2] e2] eqn:E.
        inversion H; subst. simpl. rewrite (IH _ _ _ _ _ E).
        destruct err, (is_ok x), (forallb is_ok rs2); reflexivity.
  Qed.

  (* continueOnFailure: every element is processed, in order, each in the state its predecessors left *)
  Lemma run_seq_continue es : forall s err,
    run_seq true s err es = (exec_all s es, results_all s es, err || negb (forallb is_ok (results_all s es))).
  Proof.
    induction es as [|e r IH]; intros s err; simpl.
    - rewrite orb_false_r. reflexivity.
    - rewrite andb_false_r. destruct (exec s e) as [s1 x] eqn:E. rewrite IH. simpl.
      unfold Bulk.exec_all. simpl. rewrite ?E. simpl.
      destruct err, (is_ok x), (forallb is_ok (results_all s1 r)); reflexivity.
  Qed.

  (* no failure: same thing whatever the options *)
  Lemma run_seq_all_ok cont es : forall s,
    forallb is_ok (results_all s es) = true -> run_seq cont s false es = (exec_all s es, results_all s es, false).
  Proof.
    induction es as [|e r IH]; intros s H; simpl in *; [reflexivity|].
    apply andb_true_iff in H. destruct H as [Hx Hr].
    destruct (exec s e) as [s1 x] eqn:E. simpl in *. rewrite Hx. simpl. rewrite (IH s1 Hr).
    unfold Bulk.exec_all. simpl. rewrite ?E. reflexivity.
  Qed.

  (* first failure at position |es1| without continueOnFailure: the prefix and the failing element are processed in order,
     nothing after it *)
  Lemma run_seq_first_failure es1 e es2 s :
    forallb is_ok (results_all s es1) = true ->
    is_ok (snd (exec (exec_all s es1) e)) = false ->
    run_seq false s false (es1 ++ e :: es2) =
      (fst (exec (exec_all s es1) e), results_all s es1 ++ snd (exec (exec_all s es1) e) :: repeat cancelled (length es2), true).
  Proof.
    revert s. induction es1 as [|a es1 IH]; intros s Hok Hf; simpl in *.
    - unfold Bulk.exec_all in *. simpl in *. destruct (exec s e) as [s1 x]. simpl in *. rewrite Hf. simpl.
      rewrite run_seq_stopped. reflexivity.
    - apply andb_true_iff in Hok. destruct Hok as [Hx Hr].
      destruct (exec s a) as [s1 x] eqn:E. simpl in *. rewrite Hx. simpl.
      assert (Hea : forall l, exec_all s (a :: l) = exec_all s1 l).
      { intros l. unfold Bulk.exec_all. simpl. rewrite ?E. reflexivity. }
      rewrite ?Hea in *. rewrite (IH s1 Hr Hf). reflexivity.
  Qed.

  (* each successful element's result is the result of the same request on its own *)
  Lemma run_seq_standalone cont es : forall s err s' rs err' i r,
    run_seq cont s err es = (s', rs, err') -> nth_error rs i = Some r -> is_ok r = true ->
    standalone s es i = Some r.
  Proof.
    induction es as [|e es IH]; intros s err s' rs err' i r H Hn Hok; simpl in H.
    - inversion H; subst. destruct i; discriminate.
    - destruct (err && negb cont) eqn:Ec.
      + apply andb_true_iff in Ec. destruct Ec as [-> Hc]. apply negb_true_iff in Hc. subst cont.
        rewrite run_seq_stopped in H. inversion H; subst; clear H.
        exfalso. assert (Hin : In r (cancelled :: repeat cancelled (length es))) by (eapply nth_error_In; exact Hn).
        destruct Hin as [<-|Hin]; [|apply repeat_spec in Hin; subst r]; rewrite cancelled_not_ok in Hok; discriminate.
      + destruct (exec s e) as [s1 x] eqn:E. destruct (run_seq cont s1 (err || negb (is_ok x)) es) as [[s2 rs2] e2] eqn:E2.
        inversion H; subst; clear H. destruct i as [|i]; simpl in Hn.
        * inversion Hn; subst. unfold Bulk.standalone, Bulk.exec_all. simpl. rewrite ?E. reflexivity.
        * pose proof (IH _ _ _ _ _ _ _ E2 Hn Hok) as Hs. unfold Bulk.standalone, Bulk.exec_all in *. simpl. rewrite ?E. simpl. exact Hs.
  Qed.

  (* ---------- Run ---------- *)
  Variable O : Type.
  Variable obs : state -> O.
  Hypothesis obs_rollback : forall s0 s1, obs (rollback s0 s1) = obs s0.

  Lemma run_bulk_length atomic cont s es s' rs : run_bulk atomic cont s es = (s', rs) -> length rs = length es.
  Proof.
    unfold Bulk.run_bulk. destruct (run_seq cont s false es) as [[s2 rs2] e2] eqn:E. intros H.
    assert (rs = rs2) by (destruct (atomic && e2); inversion H; reflexivity). subst. eapply run_seq_length; exact E.
  Qed.

  Lemma run_bulk_atomic_none cont s es s' rs :
    run_bulk true cont s es = (s', rs) -> forallb is_ok rs = false -> obs s' = obs s.
  Proof.
    unfold Bulk.run_bulk. destruct (run_seq cont s false es) as [[s2 rs2] e2] eqn:E. intros H Hf.
    pose proof (run_seq_flag _ _ _ _ _ _ _ E) as He. simpl in He.
    destruct e2; simpl in H; inversion H; subst.
    - apply obs_rollback.
    - rewrite Hf in He. discriminate.
  Qed.

  Lemma run_bulk_all cont atomic s es s' rs :
    run_bulk atomic cont s es = (s', rs) -> forallb is_ok rs = true -> s' = exec_all s es /\ rs = results_all s es.
  Proof.
    unfold Bulk.run_bulk. destruct (run_seq cont s false es) as [[s2 rs2] e2] eqn:E. intros H Hf.
    pose proof (run_seq_flag _ _ _ _ _ _ _ E) as He. simpl in He.
    assert (rs = rs2) by (destruct (atomic && e2); inversion H; reflexivity). subst rs2.
    rewrite Hf in He. simpl in He. subst e2. rewrite andb_false_r in H. inversion H; subst s2; clear H.
    (* every result ok => every result is the standalone one => results_all ok => run_seq_all_ok *)
    assert (Hall : forall es s err s' rs err', run_seq cont s err es = (s', rs, err') -> forallb is_ok rs = true -> rs = results_all s es /\ s' = exec_all s es).
    { clear - cancelled_not_ok. induction es as [|e es IH]; intros s err s' rs err' H Hok; simpl in H.
      - inversion H; subst. split; reflexivity.
      - destruct (err && negb cont).
        + destruct (run_seq cont s err es) as [[s2 rs2] e2]. inversion H; subst. simpl in Hok. rewrite cancelled_not_ok in Hok. discriminate.
        + destruct (exec s e) as [s1 x] eqn:E. destruct (run_seq cont s1 (err || negb (is_ok x)) es) as [[s2 rs2] e2] eqn:E2.
          inversion H; subst. simpl in Hok. apply andb_true_iff in Hok. destruct Hok as [_ Hok].
          destruct (IH _ _ _ _ _ E2 Hok) as [-> ->]. unfold Bulk.exec_all. simpl. rewrite ?E. split; reflexivity. }
    destruct (Hall _ _ _ _ _ _ E Hf) as [-> ->]. split; reflexivity.
  Qed.

  Lemma run_bulk_standalone atomic cont s es s' rs i r :
    run_bulk atomic cont s es = (s', rs) -> nth_error rs i = Some r -> is_ok r = true -> standalone s es i = Some r.
  Proof.
    unfold Bulk.run_bulk. destruct (run_seq cont s false es) as [[s2 rs2] e2] eqn:E. intros H.
    assert (rs = rs2) by (destruct (atomic && e2); inversion H; reflexivity). subst. eapply run_seq_standalone; exact E.
  Qed.

  (* response: entry i carries result i and action i *)
  Lemma respond_nth {A} (actions : list A) rs i a r :
    nth_error actions i = Some a -> nth_error rs i = Some r ->
    nth_error (respond is_ok actions rs) i = Some (if is_ok r then Some a else None, r).
  Proof.
    revert rs i. induction actions as [|b actions IH]; intros rs i Ha Hr; [destruct i; discriminate|].
    destruct rs as [|x rs]; [destruct i; discriminate|]. destruct i as [|i]; simpl in *.
    - inversion Ha; inversion Hr; subst. reflexivity.
    - apply IH; assumption.
  Qed.

  (* parallel, tasks all started before the first completion (no cancellation): serial execution of the permuted list *)
  Lemma run_sched_early cont es perm : forall s err,
    run_sched cont es s err (map (fun i => (i, false)) perm) =
      (exec_all s (pick es perm),
       combine (filter (fun i => match nth_error es i with Some _ => true | None => false end) perm) (results_all s (pick es perm)),
       err || negb (forallb is_ok (results_all s (pick es perm)))).
  Proof.
    induction perm as [|i perm IH]; intros s err; simpl.
    - rewrite orb_false_r. reflexivity.
    - unfold pick in *. simpl. destruct (nth_error es i) as [e|] eqn:En; simpl.
      + destruct (exec s e) as [s1 x] eqn:E. rewrite IH. unfold Bulk.exec_all. simpl. rewrite ?E. simpl.
        destruct err, (is_ok x); simpl; try reflexivity;
          destruct (forallb is_ok (results_all s1 (flat_map (fun i0 => match nth_error es i0 with Some e0 => [e0] | None => [] end) perm))); reflexivity.
      + apply IH.
  Qed.
End BulkProofs.
