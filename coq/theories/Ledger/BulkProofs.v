(* Proofs about Ledger/Bulk.v, for every element list and every per-element step function. *)
From Coq Require Import List Bool Arith Lia Permutation Sorted.
From LV Require Import Ledger.Bulk.
Import ListNotations.

Section BulkProofs.
  Context {state elem res : Type}.
  Variable exec : state -> elem -> state * res.
  Variable is_ok : res -> bool.
  Variable cancelled : res.
  Variable rollback : state -> state -> state.
  Hypothesis cancelled_not_ok : is_ok cancelled = false.

  Notation run_seq := (run_seq exec is_ok cancelled).
  Notation run_bulk := (run_bulk exec is_ok cancelled rollback).
  Notation run_sched := (run_sched exec is_ok cancelled).
  Notation exec_all := (exec_all exec).
  Notation results_all := (results_all exec).
  Notation standalone := (standalone exec).

  Lemma exec_all_app s a b : exec_all s (a ++ b) = exec_all (exec_all s a) b.
  Proof. unfold Bulk.exec_all. apply fold_left_app. Qed.

  Lemma results_all_length s es : length (results_all s es) = length es.
  Proof. revert s. induction es as [|e r IH]; intros s; simpl; [reflexivity | rewrite IH; reflexivity]. Qed.

  Lemma results_all_app s a b : results_all s (a ++ b) = results_all s a ++ results_all (exec_all s a) b.
  Proof. revert s. induction a as [|e a IH]; intros s; simpl; [reflexivity|]. rewrite IH. reflexivity. Qed.

  (* exactly one result per element *)
  Lemma run_seq_length cont es : forall s err s' rs err',
    run_seq cont s err es = (s', rs, err') -> length rs = length es.
  Proof.
    induction es as [|e r IH]; intros s err s' rs err' H; simpl in H.
    - inversion H; reflexivity.
    - destruct (err && negb cont).
      + destruct (run_seq cont s err r) as [[s2 rs2] e2] eqn:E. inversion H; subst. simpl. f_equal. eapply IH; exact E.
      + destruct (exec s e) as [s1 x]. destruct (run_seq cont s1 (err || negb (is_ok x)) r) as [[s2 rs2] e2] eqn:E.
        inversion H; subst. simpl. f_equal. eapply IH; exact E.
  Qed.

  (* after a failure without continueOnFailure nothing more is processed *)
  Lemma run_seq_stopped es : forall s, run_seq false s true es = (s, repeat cancelled (length es), true).
  Proof. induction es as [|e r IH]; intros s; simpl; [reflexivity | rewrite IH; reflexivity]. Qed.

  (* the returned flag is hasError *)
  Lemma run_seq_flag cont es : forall s err s' rs err',
    run_seq cont s err es = (s', rs, err') -> err' = err || negb (forallb is_ok rs).
  Proof.
    induction es as [|e r IH]; intros s err s' rs err' H; simpl in H.
    - inversion H; subst. simpl. rewrite orb_false_r. reflexivity.
    - destruct (err && negb cont) eqn:Ec.
      + destruct (run_seq cont s err r) as [[s2 rs2] e2] eqn:E. inversion H; subst. simpl.
        rewrite cancelled_not_ok. simpl. apply andb_true_iff in Ec. destruct Ec as [-> _]. simpl.
        rewrite (IH _ _ _ _ _ E). reflexivity.
      + destruct (exec s e) as [s1 x]. destruct (run_seq cont s1 (err || negb (is_ok x)) r) as [[s2 rs2] e2] eqn:E.
        inversion H; subst. simpl. rewrite (IH _ _ _ _ _ E).
        destruct err, (is_ok x), (forallb is_ok rs2); reflexivity.
  Qed.

  (* continueOnFailure: every element is processed, in order, each in the state its predecessors left *)
  Lemma run_seq_continue es : forall s err,
    run_seq true s err es = (exec_all s es, results_all s es, err || negb (forallb is_ok (results_all s es))).
  Proof.
    induction es as [|e r IH]; intros s err; simpl.
    - rewrite orb_false_r. reflexivity.
    - rewrite andb_false_r. destruct (exec s e) as [s1 x] eqn:E. rewrite IH. simpl.
      unfold Bulk.exec_all. simpl. rewrite ?E. simpl.
      destruct err, (is_ok x), (forallb is_ok (results_all s1 r)); reflexivity.
  Qed.

  (* no failure: same thing whatever the options *)
  Lemma run_seq_all_ok cont es : forall s,
    forallb is_ok (results_all s es) = true -> run_seq cont s false es = (exec_all s es, results_all s es, false).
  Proof.
    induction es as [|e r IH]; intros s H; simpl in *; [reflexivity|].
    apply andb_true_iff in H. destruct H as [Hx Hr].
    destruct (exec s e) as [s1 x] eqn:E. simpl in *. rewrite Hx. simpl. rewrite (IH s1 Hr).
    unfold Bulk.exec_all. simpl. rewrite ?E. reflexivity.
  Qed.

  (* first failure at position |es1| without continueOnFailure: the prefix and the failing element are processed in order,
     nothing after it *)
  Lemma run_seq_first_failure es1 e es2 s :
    forallb is_ok (results_all s es1) = true ->
    is_ok (snd (exec (exec_all s es1) e)) = false ->
    run_seq false s false (es1 ++ e :: es2) =
      (fst (exec (exec_all s es1) e), results_all s es1 ++ snd (exec (exec_all s es1) e) :: repeat cancelled (length es2), true).
  Proof.
    revert s. induction es1 as [|a es1 IH]; intros s Hok Hf; simpl in *.
    - unfold Bulk.exec_all in *. simpl in *. destruct (exec s e) as [s1 x]. simpl in *. rewrite Hf. simpl.
      rewrite run_seq_stopped. reflexivity.
    - apply andb_true_iff in Hok. destruct Hok as [Hx Hr].
      destruct (exec s a) as [s1 x] eqn:E. simpl in *. rewrite Hx. simpl.
      assert (Hea : forall l, exec_all s (a :: l) = exec_all s1 l).
      { intros l. unfold Bulk.exec_all. simpl. rewrite ?E. reflexivity. }
      rewrite ?Hea in *. rewrite (IH s1 Hr Hf). reflexivity.
  Qed.

  (* each successful element's result is the result of the same request on its own *)
  Lemma run_seq_standalone cont es : forall s err s' rs err' i r,
    run_seq cont s err es = (s', rs, err') -> nth_error rs i = Some r -> is_ok r = true ->
    standalone s es i = Some r.
  Proof.
    induction es as [|e es IH]; intros s err s' rs err' i r H Hn Hok; simpl in H.
    - inversion H; subst. destruct i; discriminate.
    - destruct (err && negb cont) eqn:Ec.
      + apply andb_true_iff in Ec. destruct Ec as [-> Hc]. apply negb_true_iff in Hc. subst cont.
        rewrite run_seq_stopped in H. inversion H; subst; clear H.
        exfalso. assert (Hin : In r (cancelled :: repeat cancelled (length es))) by (eapply nth_error_In; exact Hn).
        destruct Hin as [<-|Hin]; [|apply repeat_spec in Hin; subst r]; rewrite cancelled_not_ok in Hok; discriminate.
      + destruct (exec s e) as [s1 x] eqn:E. destruct (run_seq cont s1 (err || negb (is_ok x)) es) as [[s2 rs2] e2] eqn:E2.
        inversion H; subst; clear H. destruct i as [|i]; simpl in Hn.
        * inversion Hn; subst. unfold Bulk.standalone, Bulk.exec_all. simpl. rewrite ?E. reflexivity.
        * pose proof (IH _ _ _ _ _ _ _ E2 Hn Hok) as Hs. unfold Bulk.standalone, Bulk.exec_all in *. simpl. rewrite ?E. simpl. exact Hs.
  Qed.

  (* ---------- Run ---------- *)
  Variable O : Type.
  Variable obs : state -> O.
  Hypothesis obs_rollback : forall s0 s1, obs (rollback s0 s1) = obs s0.

  Lemma run_bulk_length atomic cont s es s' rs : run_bulk atomic cont s es = (s', rs) -> length rs = length es.
  Proof.
    unfold Bulk.run_bulk. destruct (run_seq cont s false es) as [[s2 rs2] e2] eqn:E. intros H.
    assert (rs = rs2) by (destruct (atomic && e2); inversion H; reflexivity). subst. eapply run_seq_length; exact E.
  Qed.

  Lemma run_bulk_atomic_none cont s es s' rs :
    run_bulk true cont s es = (s', rs) -> forallb is_ok rs = false -> obs s' = obs s.
  Proof.
    unfold Bulk.run_bulk. destruct (run_seq cont s false es) as [[s2 rs2] e2] eqn:E. intros H Hf.
    pose proof (run_seq_flag _ _ _ _ _ _ _ E) as He. simpl in He.
    destruct e2; simpl in H; inversion H; subst.
    - apply obs_rollback.
    - rewrite Hf in He. discriminate.
  Qed.

  Lemma run_bulk_all cont atomic s es s' rs :
    run_bulk atomic cont s es = (s', rs) -> forallb is_ok rs = true -> s' = exec_all s es /\ rs = results_all s es.
  Proof.
    unfold Bulk.run_bulk. destruct (run_seq cont s false es) as [[s2 rs2] e2] eqn:E. intros H Hf.
    pose proof (run_seq_flag _ _ _ _ _ _ _ E) as He. simpl in He.
    assert (rs = rs2) by (destruct (atomic && e2); inversion H; reflexivity). subst rs2.
    rewrite Hf in He. simpl in He. subst e2. rewrite andb_false_r in H. inversion H; subst s2; clear H.
    (* every result ok => every result is the standalone one => results_all ok => run_seq_all_ok *)
    assert (Hall : forall es s err s' rs err', run_seq cont s err es = (s', rs, err') -> forallb is_ok rs = true -> rs = results_all s es /\ s' = exec_all s es).
    { clear - cancelled_not_ok. induction es as [|e es IH]; intros s err s' rs err' H Hok; simpl in H.
      - inversion H; subst. split; reflexivity.
      - destruct (err && negb cont).
        + destruct (run_seq cont s err es) as [[s2 rs2] e2]. inversion H; subst. simpl in Hok. rewrite cancelled_not_ok in Hok. discriminate.
        + destruct (exec s e) as [s1 x] eqn:E. destruct (run_seq cont s1 (err || negb (is_ok x)) es) as [[s2 rs2] e2] eqn:E2.
          inversion H; subst. simpl in Hok. apply andb_true_iff in Hok. destruct Hok as [_ Hok].
          destruct (IH _ _ _ _ _ E2 Hok) as [-> ->]. unfold Bulk.exec_all. simpl. rewrite ?E. split; reflexivity. }
    destruct (Hall _ _ _ _ _ _ E Hf) as [-> ->]. split; reflexivity.
  Qed.

  Lemma run_bulk_standalone atomic cont s es s' rs i r :
    run_bulk atomic cont s es = (s', rs) -> nth_error rs i = Some r -> is_ok r = true -> standalone s es i = Some r.
  Proof.
    unfold Bulk.run_bulk. destruct (run_seq cont s false es) as [[s2 rs2] e2] eqn:E. intros H.
    assert (rs = rs2) by (destruct (atomic && e2); inversion H; reflexivity). subst. eapply run_seq_standalone; exact E.
  Qed.

  (* ---------- response: sort by ElementID, then positional pairing ---------- *)
  Notation ins_by_id := (@ins_by_id res).
  Notation sort_by_id := (@sort_by_id res).
  Definition key_le (a b : nat * res) : Prop := fst a <= fst b.

  Lemma ins_perm x l : Permutation (ins_by_id x l) (x :: l).
  Proof.
    induction l as [|y l IH]; simpl; [apply Permutation_refl|].
    destruct (fst x <=? fst y); [apply Permutation_refl|].
    eapply perm_trans; [apply perm_skip; exact IH | apply perm_swap].
  Qed.

  Lemma sort_perm l : Permutation (sort_by_id l) l.
  Proof.
    induction l as [|x l IH]; simpl; [apply perm_nil|].
    eapply perm_trans; [apply ins_perm | apply perm_skip; exact IH].
  Qed.

  Lemma ins_sorted x l : StronglySorted key_le l -> StronglySorted key_le (ins_by_id x l).
  Proof.
    induction l as [|y l IH]; intros Hs; simpl.
    - constructor; [constructor | constructor].
    - inversion Hs as [|? ? Hs' Hall]; subst.
      destruct (fst x <=? fst y) eqn:E.
      + apply Nat.leb_le in E. constructor; [exact Hs|].
        constructor; [exact E|]. eapply Forall_impl; [|exact Hall]. intros z Hz. unfold key_le in *. lia.
      + apply Nat.leb_gt in E. constructor; [apply IH; exact Hs'|].
        eapply Permutation_Forall; [apply Permutation_sym, ins_perm|].
        constructor; [unfold key_le; lia | exact Hall].
  Qed.

  Lemma sort_sorted l : StronglySorted key_le (sort_by_id l).
  Proof. induction l as [|x l IH]; simpl; [constructor | apply ins_sorted; exact IH]. Qed.

  (* strictly increasing lists with the same elements are equal *)
  Lemma strict_sorted_unique : forall l1 l2 : list nat,
    StronglySorted lt l1 -> StronglySorted lt l2 -> (forall x, In x l1 <-> In x l2) -> l1 = l2.
  Proof.
    induction l1 as [|a l1 IH]; intros l2 H1 H2 Heq.
    - destruct l2 as [|b l2]; [reflexivity|]. exfalso. apply (proj2 (Heq b)). left; reflexivity.
    - destruct l2 as [|b l2]; [exfalso; apply (proj1 (Heq a)); left; reflexivity|].
      inversion H1 as [|? ? H1' Ha]; inversion H2 as [|? ? H2' Hb]; subst.
      rewrite Forall_forall in Ha, Hb.
      assert (a = b).
      { destruct (proj1 (Heq a) (or_introl eq_refl)) as [E|Hin]; [symmetry; exact E|].
        destruct (proj2 (Heq b) (or_introl eq_refl)) as [E|Hin2]; [exact E|].
        specialize (Hb _ Hin). specialize (Ha _ Hin2). lia. }
      subst b. f_equal. apply IH; [exact H1' | exact H2'|].
      intros x. split; intros Hx.
      + destruct (proj1 (Heq x) (or_intror Hx)) as [E|Hin]; [|exact Hin]. subst x. specialize (Ha _ Hx). lia.
      + destruct (proj2 (Heq x) (or_intror Hx)) as [E|Hin]; [|exact Hin]. subst x. specialize (Hb _ Hx). lia.
  Qed.

  Lemma seq_strict n : forall a, StronglySorted lt (seq a n).
  Proof.
    induction n as [|n IH]; intros a; simpl; constructor; [apply IH|].
    apply Forall_forall. intros x Hx. apply in_seq in Hx. lia.
  Qed.

  Lemma sorted_keys_strict (l : list (nat * res)) :
    StronglySorted key_le l -> NoDup (map fst l) -> StronglySorted lt (map fst l).
  Proof.
    induction l as [|x l IH]; intros Hs Hn; simpl; [constructor|].
    inversion Hs as [|? ? Hs' Hall]; inversion Hn as [|? ? Hnin Hn']; subst.
    constructor; [apply IH; assumption|].
    apply Forall_forall. intros k Hk. apply in_map_iff in Hk. destruct Hk as [y [<- Hy]].
    rewrite Forall_forall in Hall. specialize (Hall _ Hy). unfold key_le in Hall.
    assert (fst x <> fst y) by (intros E; apply Hnin; rewrite E; apply in_map; exact Hy). lia.
  Qed.

  (* when the tags are exactly the indices 0..n-1 (in any order), sorting puts the result tagged i at position i *)
  Lemma sort_keys (tagged : list (nat * res)) n :
    Permutation (map fst tagged) (seq 0 n) -> map fst (sort_by_id tagged) = seq 0 n.
  Proof.
    intros Hp.
    assert (Hps : Permutation (map fst (sort_by_id tagged)) (seq 0 n)).
    { eapply perm_trans; [apply Permutation_map, sort_perm | exact Hp]. }
    apply strict_sorted_unique.
    - apply sorted_keys_strict; [apply sort_sorted|].
      eapply Permutation_NoDup; [apply Permutation_sym; exact Hps | apply seq_NoDup].
    - apply seq_strict.
    - intros x. split; intros Hx; [eapply Permutation_in; [exact Hps | exact Hx] | eapply Permutation_in; [apply Permutation_sym; exact Hps | exact Hx]].
  Qed.

  Lemma sort_nth (tagged : list (nat * res)) n i :
    Permutation (map fst tagged) (seq 0 n) -> i < n ->
    exists r, nth_error (sort_by_id tagged) i = Some (i, r) /\ In (i, r) tagged.
  Proof.
    intros Hp Hi. pose proof (sort_keys tagged n Hp) as Hk.
    assert (Hlen : length (sort_by_id tagged) = n) by (rewrite <- (map_length fst), Hk; apply seq_length).
    destruct (nth_error (sort_by_id tagged) i) as [[k r]|] eqn:E.
    - assert (k = i).
      { pose proof (map_nth_error fst i (sort_by_id tagged) E) as Hm. rewrite Hk in Hm. simpl in Hm.
        rewrite nth_error_nth' with (d := 0) in Hm by (rewrite seq_length; exact Hi).
        rewrite seq_nth in Hm by exact Hi. inversion Hm. reflexivity. }
      subst k. exists r. split; [reflexivity|].
      eapply Permutation_in; [apply sort_perm | eapply nth_error_In; exact E].
    - apply nth_error_None in E. lia.
  Qed.

  (* the response attributes to element i the result tagged i -- whatever the completion order *)
  Lemma respond_nth {A} (actions : list A) (tagged : list (nat * res)) i a :
    Permutation (map fst tagged) (seq 0 (length actions)) -> nth_error actions i = Some a ->
    exists r, In (i, r) tagged /\
      nth_error (respond is_ok actions tagged) i = Some (if is_ok r then Some a else None, r).
  Proof.
    intros Hp Ha.
    assert (Hi : i < length actions) by (apply nth_error_Some; rewrite Ha; discriminate).
    destruct (sort_nth tagged _ i Hp Hi) as [r [Hn Hin]].
    exists r. split; [exact Hin|].
    unfold respond. 
    assert (Hs : nth_error (map snd (sort_by_id tagged)) i = Some r) by (apply (map_nth_error snd i _ Hn)).
    assert (Hc : nth_error (combine actions (map snd (sort_by_id tagged))) i = Some (a, r)).
    { clear - Ha Hs. revert i Ha Hs. generalize (map snd (sort_by_id tagged)) as rs.
      induction actions as [|b actions IH]; intros rs i Ha Hs; [destruct i; discriminate|].
      destruct rs as [|x rs]; [destruct i; discriminate|]. destruct i as [|i]; simpl in *.
      - inversion Ha; inversion Hs; subst; reflexivity.
      - apply IH; assumption. }
    apply (map_nth_error (fun ar : A * res => (if is_ok (snd ar) then Some (fst ar) else None, snd ar)) i _ Hc).
  Qed.

  (* tags of a sequential run *)
  Lemma tag_seq_keys (rs : list res) : map fst (tag_seq rs) = seq 0 (length rs).
  Proof.
    unfold tag_seq. generalize 0 as a. induction rs as [|r rs IH]; intros a; simpl; [reflexivity|]. rewrite IH. reflexivity.
  Qed.

  Lemma tag_seq_in (rs : list res) i r : In (i, r) (tag_seq rs) -> nth_error rs i = Some r.
  Proof.
    unfold tag_seq.
    assert (H : forall a, In (i, r) (combine (seq a (length rs)) rs) -> a <= i /\ nth_error rs (i - a) = Some r).
    { induction rs as [|x rs IH]; intros a Hin; simpl in Hin; [contradiction|].
      destruct Hin as [E|Hin].
      - inversion E; subst. rewrite Nat.sub_diag. split; [lia | reflexivity].
      - destruct (IH _ Hin) as [Hle Hn]. split; [lia|].
        replace (i - a) with (S (i - S a)) by lia. exact Hn. }
    intros Hin. destruct (H 0 Hin) as [_ Hn]. rewrite Nat.sub_0_r in Hn. exact Hn.
  Qed.

  (* tags of a schedule: the valid element indices of the schedule, in completion order *)
  Lemma run_sched_tags cont es sched : forall s err s' rs err',
    run_sched cont es s err sched = (s', rs, err') ->
    map fst rs = filter (fun i => match nth_error es i with Some _ => true | None => false end) (map fst sched).
  Proof.
    induction sched as [|[i late] sched IH]; intros s err s' rs err' H; simpl in H.
    - inversion H; reflexivity.
    - simpl. destruct (nth_error es i) as [e|] eqn:En.
      + destruct (late && err && negb cont).
        * destruct (run_sched cont es s err sched) as [[s2 rs2] e2] eqn:E. inversion H; subst. simpl. f_equal. eapply IH; exact E.
        * destruct (exec s e) as [s1 x]. destruct (run_sched cont es s1 (err || negb (is_ok x)) sched) as [[s2 rs2] e2] eqn:E.
          inversion H; subst. simpl. f_equal. eapply IH; exact E.
      + eapply IH; exact H.
  Qed.

  Lemma run_sched_tags_perm cont es sched s err s' rs err' :
    run_sched cont es s err sched = (s', rs, err') ->
    Permutation (map fst sched) (seq 0 (length es)) -> Permutation (map fst rs) (seq 0 (length es)).
  Proof.
    intros H Hp. rewrite (run_sched_tags _ _ _ _ _ _ _ _ H).
    assert (Hf : forall (f : nat -> bool) l, (forall x, In x l -> f x = true) -> filter f l = l).
    { intros f l. induction l as [|x l IH]; intros Hall; simpl; [reflexivity|].
      rewrite (Hall x (or_introl eq_refl)). f_equal. apply IH. intros y Hy. apply Hall. right; exact Hy. }
    rewrite Hf; [exact Hp|].
    intros x Hx. assert (Hin : In x (seq 0 (length es))) by (eapply Permutation_in; [exact Hp | exact Hx]).
    apply in_seq in Hin. destruct (nth_error es x) eqn:E; [reflexivity|]. apply nth_error_None in E. lia.
  Qed.

  (* parallel, tasks all started before the first completion (no cancellation): serial execution of the permuted list *)
  Lemma run_sched_early cont es perm : forall s err,
    run_sched cont es s err (map (fun i => (i, false)) perm) =
      (exec_all s (pick es perm),
       combine (filter (fun i => match nth_error es i with Some _ => true | None => false end) perm) (results_all s (pick es perm)),
       err || negb (forallb is_ok (results_all s (pick es perm)))).
  Proof.
    induction perm as [|i perm IH]; intros s err; simpl.
    - rewrite orb_false_r. reflexivity.
    - unfold pick in *. simpl. destruct (nth_error es i) as [e|] eqn:En; simpl.
      + destruct (exec s e) as [s1 x] eqn:E. rewrite IH. unfold Bulk.exec_all. simpl. rewrite ?E. simpl.
        destruct err, (is_ok x); simpl; try reflexivity;
          destruct (forallb is_ok (results_all s1 (flat_map (fun i0 => match nth_error es i0 with Some e0 => [e0] | None => [] end) perm))); reflexivity.
      + apply IH.
  Qed.
End BulkProofs.
