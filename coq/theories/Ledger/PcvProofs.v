(* C03: post-commit volumes.  The reverse unwinding loop of CommitTransaction computes the forward running volumes. *)
From Coq Require Import List ZArith String Bool Lia.
From LV Require Import Base.Util Ledger.Types Ledger.Core Ledger.VolProofs Ledger.Invariants.
Import ListNotations.
Open Scope Z_scope.

(* the specification: apply the postings in order; after the debit record the source side, after the credit the destination side *)
Fixpoint fwd (cur : volmap) (ps : list posting) : list mvdata :=
  match ps with
  | [] => []
  | p :: r =>
    let c1 := vadd cur (skey p) (0, p_amt p) in
    let c2 := vadd c1 (dkey p) (p_amt p, 0) in
    {| md_acc := p_src p; md_asset := p_asset p; md_amt := p_amt p; md_src := true; md_pcv := vget c1 (skey p) |} ::
    {| md_acc := p_dst p; md_asset := p_asset p; md_amt := p_amt p; md_src := false; md_pcv := vget c2 (dkey p) |} ::
    fwd c2 r
  end.

Lemma fwd_app cur a b : fwd cur (a ++ b) = fwd cur a ++ fwd (fold_left apply_posting a cur) b.
Proof. revert cur; induction a as [|p r IH]; intros cur; simpl; [reflexivity|]. rewrite IH. reflexivity. Qed.

Lemma fwd_veq a b ps : veq a b -> fwd a ps = fwd b ps.
Proof.
  revert a b; induction ps as [|p r IH]; intros a b H; simpl; [reflexivity|].
  assert (H1 : veq (vadd a (skey p) (0, p_amt p)) (vadd b (skey p) (0, p_amt p))) by (apply vadd_veq; exact H).
  assert (H2 : veq (vadd (vadd a (skey p) (0, p_amt p)) (dkey p) (p_amt p, 0)) (vadd (vadd b (skey p) (0, p_amt p)) (dkey p) (p_amt p, 0)))
    by (apply vadd_veq; exact H1).
  rewrite (H1 (skey p)), (H2 (dkey p)), (IH _ _ H2). reflexivity.
Qed.

Lemma unwind_veq a b l : veq a b -> unwind a l = unwind b l.
Proof.
  revert a b; induction l as [|p r IH]; intros a b H; simpl; [reflexivity|].
  assert (H1 : veq (vadd a (dkey p) (- p_amt p, 0)) (vadd b (dkey p) (- p_amt p, 0))) by (apply vadd_veq; exact H).
  assert (H2 : veq (vadd (vadd a (dkey p) (- p_amt p, 0)) (skey p) (0, - p_amt p)) (vadd (vadd b (dkey p) (- p_amt p, 0)) (skey p) (0, - p_amt p)))
    by (apply vadd_veq; exact H1).
  rewrite (H (dkey p)), (H1 (skey p)), (IH _ _ H2). reflexivity.
Qed.

Lemma undo_posting m p :
  veq (vadd (vadd (apply_posting m p) (dkey p) (- p_amt p, 0)) (skey p) (0, - p_amt p)) m.
Proof.
  intros k. unfold apply_posting. rewrite !vget_vadd.
  destruct (key_eqb (skey p) k), (key_eqb (dkey p) k), (vget m k); unfold vplus; simpl; f_equal; lia.
Qed.

(* the loop: unwinding from the final volumes, then reversing, yields the forward list *)
Theorem unwind_is_forward pre ps : rev (unwind (fold_left apply_posting ps pre) (rev ps)) = fwd pre ps.
Proof.
  revert pre. induction ps as [|p ps' IH] using rev_ind; intros pre; [reflexivity|].
  rewrite rev_app_distr, fold_left_app. cbn [rev app fold_left unwind].
  rewrite (unwind_veq _ (fold_left apply_posting ps' pre)) by apply undo_posting.
  rewrite <- !app_assoc. cbn [app]. rewrite IH, fwd_app. cbn [fwd]. f_equal.
  set (mid := fold_left apply_posting ps' pre).
  assert (Es : vget (vadd (apply_posting mid p) (dkey p) (- p_amt p, 0)) (skey p) = vget (vadd mid (skey p) (0, p_amt p)) (skey p)).
  { unfold apply_posting. rewrite !vget_vadd. unfold key_eqb. rewrite !pair_eqb_refl.
    destruct (pair_eqb (dkey p) (skey p)), (vget mid (skey p)); unfold vplus; simpl; f_equal; lia. }
  rewrite Es. reflexivity.
Qed.

Theorem moves_of_forward pre ps fin : veq fin (fold_left apply_posting ps pre) -> moves_of fin ps = fwd pre ps.
Proof. intros H. unfold moves_of. rewrite (unwind_veq _ _ _ H). apply unwind_is_forward. Qed.

(* the RETURNING totals agree with the updated table on every key a posting touches *)
Lemma vget_returned_totals vols upd k : In k (map fst upd) -> NoDup (map fst upd) -> vget (returned_totals vols upd) k = vget vols k.
Proof.
  unfold returned_totals. induction upd as [|[k0 d0] r IH]; intros Hin Hnd; [destruct Hin|].
  simpl in *. rewrite vget_cons. destruct (key_eqb k0 k) eqn:E.
  - apply pair_eqb_eq in E; subst; reflexivity.
  - inversion Hnd; subst. destruct Hin as [->|Hin]; [unfold key_eqb in E; rewrite pair_eqb_refl in E; discriminate|]. apply IH; assumption.
Qed.

Lemma returned_totals_keys vols upd : map fst (returned_totals vols upd) = map fst upd.
Proof. unfold returned_totals. rewrite map_map. reflexivity. Qed.

(* unwinding only reads keys the postings touch: two maps that agree there give the same moves *)
Definition agree_on (ks : list key) (a b : volmap) : Prop := forall k, In k ks -> vget a k = vget b k.

Lemma agree_vadd ks a b k d : agree_on ks a b -> agree_on ks (vadd a k d) (vadd b k d).
Proof. intros H k' Hin. rewrite !vget_vadd, (H k' Hin). reflexivity. Qed.

Lemma unwind_agree ks a b l : (forall p, In p l -> In (skey p) ks /\ In (dkey p) ks) -> agree_on ks a b -> unwind a l = unwind b l.
Proof.
  revert a b; induction l as [|p r IH]; intros a b Hc H; simpl; [reflexivity|].
  destruct (Hc p (or_introl eq_refl)) as [Hs Hd].
  assert (H1 : agree_on ks (vadd a (dkey p) (- p_amt p, 0)) (vadd b (dkey p) (- p_amt p, 0))) by (apply agree_vadd; exact H).
  assert (H2 : agree_on ks (vadd (vadd a (dkey p) (- p_amt p, 0)) (skey p) (0, - p_amt p)) (vadd (vadd b (dkey p) (- p_amt p, 0)) (skey p) (0, - p_amt p)))
    by (apply agree_vadd; exact H1).
  rewrite (H _ Hd), (H1 _ Hs). f_equal. f_equal. apply IH; [intros q Hq; apply Hc; right; exact Hq | exact H2].
Qed.

(* CommitTransaction as a whole: the moves it records are the forward running volumes from the state before *)
Theorem commit_moves_forward vols ps :
  let upd := volume_updates ps in
  let vols' := update_volumes vols upd in
  moves_of (returned_totals vols' upd) ps = fwd vols ps.
Proof.
  intros upd vols'. unfold moves_of.
  rewrite (unwind_agree (map fst upd) (returned_totals vols' upd) (fold_left apply_posting ps vols)).
  - apply unwind_is_forward.
  - intros p Hp. apply in_rev in Hp. apply volume_updates_keys; exact Hp.
  - intros k Hk. rewrite vget_returned_totals by (try exact Hk; apply volume_updates_nodup).
    apply update_volumes_veq.
Qed.

(* ---------- stored post-commit volumes never change ---------- *)
Definition tx_core (t : tx) := (t_id t, t_postings t, t_pcv t, t_ts t, t_ins t, t_ref t).
Definition frozen (s s' : state) : Prop := exists l, map tx_core (s_txs s') = map tx_core (s_txs s) ++ l.

Lemma frozen_refl s : frozen s s. Proof. exists []. rewrite app_nil_r. reflexivity. Qed.
Lemma frozen_trans a b c : frozen a b -> frozen b c -> frozen a c.
Proof. intros [l1 H1] [l2 H2]. exists (l1 ++ l2). rewrite H2, H1, app_assoc. reflexivity. Qed.
Lemma frozen_same_txs s s' : s_txs s' = s_txs s -> frozen s s'.
Proof. intros E. exists []. rewrite E, app_nil_r. reflexivity. Qed.

Lemma map_tx_core txs id fn : (forall t, tx_core (fn t) = tx_core t) -> map tx_core (map_tx txs id fn) = map tx_core txs.
Proof. intros H. unfold map_tx. rewrite map_map. apply map_ext. intros t. destruct (t_id t =? id); [apply H|reflexivity]. Qed.

Lemma touch_tx_frozen f s t g upd h : frozen s (touch_tx f s t (fun x => tx_with x (g x) upd (h x))).
Proof. exists []. rewrite app_nil_r. unfold touch_tx; simpl. apply map_tx_core. intros x. reflexivity. Qed.

Lemma commit_frozen f now s ps md ts ref s1 o : commit_transaction f now s ps md ts ref = (s1, o) -> frozen s s1.
Proof.
  destruct o as [t|]; intros H.
  - apply commit_some in H. destruct H as (Htx & _). exists [tx_core t]. rewrite Htx, map_app. reflexivity.
  - apply commit_none in H. destruct H as (Htx & _). apply frozen_same_txs; exact Htx.
Qed.

Lemma run_input_frozen f now s i : frozen s (outcome_state (run_input f now s i) s).
Proof.
  script_split i.
  { simpl. unfold create_tx. destruct ps as [|p ps']; [apply frozen_refl|].
    destruct (feasible force (s_vols s) (p :: ps')); simpl; [|apply frozen_refl].
    destruct (commit_transaction f now s (p :: ps') md ts ref) as [s1 [t|]] eqn:E; simpl.
    + eapply frozen_trans; [eapply commit_frozen; exact E|].
      apply frozen_same_txs. destruct (upsert_tx_accounts_frame f now s1 t amd) as (_ & E2 & _). exact E2.
    + eapply commit_frozen; exact E. }
  destruct i as [ps ts ref md amd force | id force at_eff rmeta | [a|id] md | [a|id] k | ps ts ref md amd force smd samd];
    [apply Hc | | | | | | script_bullet Hc]; simpl.
  - destruct (find_tx (s_txs s) id) as [t|]; [|apply frozen_refl].
    destruct (t_rev t); [apply frozen_refl|].
    pose proof (touch_tx_frozen f s t t_meta now (fun _ => Some now)) as H1.
    match goal with |- context [match ?c with RCOk => _ | RCInsufficient => _ | RCPanic => _ end] => destruct c end;
      cbn [outcome_state]; try exact H1; try apply frozen_refl.
    match goal with |- context [commit_transaction ?a ?b ?c ?d ?e ?g ?h] => destruct (commit_transaction a b c d e g h) as [s2 [r|]] eqn:E end;
      cbn [outcome_state]; apply commit_frozen in E; eapply frozen_trans; eassumption.
  - apply frozen_same_txs; reflexivity.
  - destruct (find_tx (s_txs s) id) as [t|]; [|apply frozen_refl].
    destruct (mcontains (t_meta t) md); simpl; [apply frozen_refl|].
    apply (touch_tx_frozen f s t (fun x => mmerge (t_meta x) md) now t_rev).
  - destruct (find_account (s_accounts s) a); simpl; apply frozen_same_txs; reflexivity.
  - destruct (find_tx (s_txs s) id) as [t|]; [|apply frozen_refl].
    destruct (mget (t_meta t) k); simpl; [|apply frozen_refl].
    apply (touch_tx_frozen f s t (fun x => mdel (t_meta x) k) now t_rev).
Qed.

Theorem step_frozen f now s o s' r : step f now s o = SR s' r -> frozen s s'.
Proof.
  unfold step. destruct (find_ik (s_logs s) (o_ik o)) as [l|].
  - destruct (input_eq_dec (l_input l) (o_in o)); intros H; inversion H; apply frozen_refl.
  - pose proof (run_input_frozen f now s (o_in o)) as Hs.
    destruct (run_input f now s (o_in o)) as [s1 p|s1 e1|]; cbn [outcome_state] in *; [| |discriminate].
    + destruct (o_dry o); intros H; inversion H; subst; [apply frozen_same_txs; reflexivity|].
      eapply frozen_trans; [exact Hs | apply frozen_same_txs; reflexivity].
    + intros H; inversion H; subst. apply frozen_same_txs; reflexivity.
Qed.

(* moves: rows are only appended; later operations rewrite nothing but the effective volumes *)
Definition move_core (m : move) := (m_seq m, m_tx m, m_acc m, m_asset m, m_amt m, m_src m, m_ins m, m_eff m, m_pcv m).
Lemma bump_later_core ms n : map move_core (bump_later ms n) = map move_core ms.
Proof. unfold bump_later. rewrite map_map. apply map_ext. intros m. destruct (_ && _); reflexivity. Qed.
Lemma fold_bump_core nr ms : map move_core (fold_left bump_later nr ms) = map move_core ms.
Proof. revert ms; induction nr as [|n r IH]; intros ms; simpl; [reflexivity|]. rewrite IH. apply bump_later_core. Qed.
