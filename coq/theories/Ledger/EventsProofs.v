(* Proofs about Ledger/Events.v: the trace of every history passes the C31 judgement when no operation is an
   idempotent replay (the pre-fix variant of the model: only when the ledger is already in use). *)
From Coq Require Import List ZArith Bool Arith Lia.
From LV Require Import Ledger.Events.
Import ListNotations.
Open Scope Z_scope.

Lemma csteps_app c a b :
  csteps c (a ++ b) = match csteps c a with inl c' => csteps c' b | inr v => inr v end.
Proof.
  revert c. induction a as [|x a IH]; intros c; simpl; [reflexivity|].
  destruct (cstep c x) as [c'|v]; [apply IH | reflexivity].
Qed.

Lemma csteps_publish_queue o p q :
  csteps {| c_open := o; c_pending := p; c_ready := q |} (map Publish q) = inl {| c_open := o; c_pending := p; c_ready := [] |}.
Proof.
  induction q as [|x q IH]; simpl; [reflexivity|].
  unfold cstep; simpl. rewrite Z.eqb_refl; simpl. exact IH.
Qed.

Definition safe (pf : bool) (s : mst) : Prop := pf = false \/ initializing s = false.

Lemma zmem_last p x : zmem x (p ++ [x]) = true.
Proof. induction p as [|y p IH]; simpl; [rewrite Z.eqb_refl; reflexivity | rewrite IH; apply orb_true_r]. Qed.

(* ---------- one write through the facade ---------- *)
Lemma facade_write_ok pf s w s1 tr r :
  safe pf s -> hit_ok pf w = true -> facade_write pf s w = (s1, tr, r) ->
  csteps c0 tr = inl c0 /\ safe pf s1.
Proof.
  intros Hs Hw H. destruct s as [ini nl cf cc cn], w as [dry out]. unfold safe in *; simpl in *.
  destruct out as [| | |hid|logged]; [| | | |destruct logged];
    destruct ini, dry, pf; try discriminate Hw; try (destruct Hs as [Hs|Hs]; discriminate Hs);
    destruct cn, cc as [[|m]|], cf as [[|n]|];
    unfold facade_write, ev_write, forge_log, ctrl_commit, ctrl_rollback, sql_commit, commit_acts, lock_frame, begin_frame, root in H; simpl in H;
    inversion H; subst; clear H; simpl; unfold cstep; simpl; rewrite ?Z.eqb_refl; simpl;
    (split; [reflexivity | auto]).
Qed.

(* ---------- atomic bulk: the queue of the transaction object = the logs pending in the open transaction;
   after a cancellation the transaction is closed (rolled back by database/sql) and nothing more happens ---------- *)
Lemma bulk_atomic_cancelled pf cont ws : forall stk s err,
  cancelled s = true -> bulk_atomic_elems pf cont stk s err ws = (s, stk, [], err).
Proof.
  induction ws as [|w ws IH]; intros stk s err Hc; simpl; [reflexivity|]. rewrite Hc. simpl. apply IH; exact Hc.
Qed.

Lemma bulk_atomic_inv pf cont ws : forall s err q s2 stk2 tr err2,
  forallb (hit_ok pf) ws = true -> cancelled s = false ->
  bulk_atomic_elems pf cont [(true, q); root] s err ws = (s2, stk2, tr, err2) ->
  (cancelled s2 = false /\ exists q2, stk2 = [(true, q2); root] /\
     csteps {| c_open := true; c_pending := q; c_ready := [] |} tr = inl {| c_open := true; c_pending := q2; c_ready := [] |})
  \/ (cancelled s2 = true /\ err2 = true /\ csteps {| c_open := true; c_pending := q; c_ready := [] |} tr = inl c0).
Proof.
  induction ws as [|w ws IH]; intros s err q s2 stk2 tr err2 Hn Hc H; simpl in *.
  - inversion H; subst. left. split; [exact Hc|]. exists q. split; reflexivity.
  - apply andb_true_iff in Hn. destruct Hn as [Hw Hn]. rewrite Hc in H. simpl in H.
    destruct (err && negb cont).
    + eapply IH; eassumption.
    + destruct w as [dry out]. unfold hit_ok, write_no_hit in Hw. simpl in *.
      destruct out as [| | |hid|logged]; [| | |destruct pf; [discriminate Hw|]|];
        unfold ev_write, forge_log in H; simpl in H; rewrite Hc in H; simpl in H; rewrite ?andb_false_r in H; simpl in H.
      5: { (* cancelled inside the atomic transaction *)
        rewrite bulk_atomic_cancelled in H by (destruct logged; reflexivity).
        inversion H; subst; clear H. right. destruct logged; simpl; (split; [reflexivity|]); (split; [apply orb_true_r|]); reflexivity. }
      all: match type of H with context [bulk_atomic_elems ?a0 ?a ?b ?c ?d ?e] =>
             destruct (bulk_atomic_elems a0 a b c d e) as [[[s3 stk3] tr3] err3] eqn:E end;
           inversion H; subst; clear H;
           (eapply IH in E; [|exact Hn|try exact Hc; simpl; exact Hc]);
           (destruct E as [[Hc2 [q2 [Hq Hcs]]]|[Hc2 [He Hcs]]];
            [left; split; [exact Hc2|]; exists q2; split; [exact Hq | simpl; exact Hcs]
            | right; split; [exact Hc2|]; split; [exact He | simpl; exact Hcs]]).
Qed.

Lemma bulk_atomic_keeps_init pf cont ws : forall stk s err s2 stk2 tr err2,
  bulk_atomic_elems pf cont stk s err ws = (s2, stk2, tr, err2) -> initializing s2 = initializing s.
Proof.
  induction ws as [|w ws IH]; intros stk s err s2 stk2 tr err2 H; simpl in H.
  - inversion H; reflexivity.
  - destruct (cancelled s || (err && negb cont)); [eapply IH; eassumption|].
    destruct (ev_write pf stk true s {| w_dry := false; w_out := w_out w |}) as [[[s1 stk1] tr1] x] eqn:E1.
    destruct (bulk_atomic_elems pf cont stk1 s1 (err || negb (res_ok x)) ws) as [[[s3 stk3] tr3] err3] eqn:E.
    inversion H; subst; clear H.
    rewrite (IH _ _ _ _ _ _ _ E).
    unfold ev_write, forge_log in E1. simpl in E1. clear E IH. destruct pf; simpl in E1;
    (destruct (cancelled s); [inversion E1; subst; reflexivity|]);
    destruct (w_out w) as [| | |hid|logged]; simpl in E1; try destruct logged;
      repeat match type of E1 with context [let '(_, _) := ?x in _] => destruct x end;
      inversion E1; subst; reflexivity.
Qed.

Lemma bulk_plain_ok pf cont ws : forall s err s2 tr err2,
  safe pf s -> forallb (hit_ok pf) ws = true ->
  bulk_plain_elems pf cont s err ws = (s2, tr, err2) ->
  csteps c0 tr = inl c0 /\ safe pf s2.
Proof.
  induction ws as [|w ws IH]; intros s err s2 tr err2 Hs Hn H; simpl in *.
  - inversion H; subst. split; [reflexivity | exact Hs].
  - apply andb_true_iff in Hn. destruct Hn as [Hw Hn].
    destruct (cancelled s || (err && negb cont)); [eapply IH; eassumption|].
    destruct (facade_write pf s {| w_dry := false; w_out := w_out w |}) as [[s1 tr1] x] eqn:E1.
    destruct (bulk_plain_elems pf cont s1 (err || negb (res_ok x)) ws) as [[s3 tr3] err3] eqn:E.
    inversion H; subst; clear H.
    assert (Hw' : hit_ok pf {| w_dry := false; w_out := w_out w |} = true) by exact Hw.
    destruct (facade_write_ok _ _ _ _ _ _ Hs Hw' E1) as [Hc Hs1].
    destruct (IH _ _ _ _ _ Hs1 Hn E) as [Hc2 Hs2].
    split; [|exact Hs2]. rewrite csteps_app, Hc. exact Hc2.
Qed.

Lemma sql_commit_init s s' c : sql_commit s = (s', c) -> initializing s' = initializing s.
Proof.
  destruct s as [ini nl cf cc cn]. unfold sql_commit. simpl. destruct cc as [[|m]|], cf as [[|n]|]; simpl; intros H; inversion H; reflexivity.
Qed.

Lemma bulk_ok pf atomic cont pre s ws s2 tr :
  safe pf s -> cancelled s = false -> forallb (hit_ok pf) ws = true -> bulk pf atomic cont pre s ws = (s2, tr) ->
  csteps c0 tr = inl c0 /\ safe pf s2.
Proof.
  intros Hs Hcn Hn H. unfold bulk in H. destruct atomic.
  - destruct (if initializing s then pre else BPOk);
      [|inversion H; subst; split; [reflexivity | exact Hs]
       |inversion H; subst; split; [reflexivity | exact Hs]].
    destruct (bulk_atomic_elems pf cont [begin_frame; root] s false ws) as [[[s1 stk] tr1] err] eqn:E.
    pose proof (bulk_atomic_keeps_init _ _ _ _ _ _ _ _ _ _ E) as Hi.
    assert (Hs1 : safe pf s1) by (unfold safe in *; rewrite Hi; exact Hs).
    destruct (bulk_atomic_inv _ _ _ _ _ _ _ _ _ _ Hn Hcn E) as [[Hc1 [q2 [Hq Hc]]]|[Hc1 [He Hc]]].
    + destruct err.
      * inversion H; subst; clear H. split; [|exact Hs1].
        simpl. rewrite csteps_app, Hc. unfold ctrl_rollback. rewrite Hc1. reflexivity.
      * subst stk. unfold ctrl_commit in H. simpl in H.
        destruct (sql_commit s1) as [s3 c] eqn:Ec. pose proof (sql_commit_init _ _ _ Ec) as Hi3.
        assert (Hs3 : safe pf s3) by (unfold safe in *; rewrite Hi3, Hi; exact Hs).
        destruct c; inversion H; subst; clear H; (split; [|exact Hs3]);
          simpl; rewrite csteps_app, Hc; simpl; try reflexivity. apply csteps_publish_queue.
    + subst err. inversion H; subst; clear H. split; [|exact Hs1].
      simpl. rewrite csteps_app, Hc. unfold ctrl_rollback. rewrite Hc1. reflexivity.
  - destruct (bulk_plain_elems pf cont s false ws) as [[s1 tr1] e] eqn:E.
    inversion H; subst; clear H. eapply bulk_plain_ok; eassumption.
Qed.

Lemma eop_ok pf s o s2 tr :
  safe pf s -> eop_hit_ok pf o = true -> eop_run pf s o = (s2, tr) -> csteps c0 tr = inl c0 /\ safe pf s2.
Proof.
  intros Hs Hn H. destruct o as [w|a c pre ws|n|n|]; simpl in *.
  - destruct (facade_write pf (with_cancelled s false) w) as [[s1 tr1] r] eqn:E. inversion H; subst.
    eapply (facade_write_ok pf (with_cancelled s false) w); [exact Hs | exact Hn | exact E].
  - apply (bulk_ok pf a c pre (with_cancelled s false) ws s2 tr Hs eq_refl Hn H).
  - inversion H; subst. split; [reflexivity | exact Hs].
  - inversion H; subst. split; [reflexivity | exact Hs].
  - inversion H; subst. split; [reflexivity | exact Hs].
Qed.

Lemma run_ops_ok pf ops : forall s s2 tr,
  safe pf s -> forallb (eop_hit_ok pf) ops = true -> run_ops pf s ops = (s2, tr) -> csteps c0 tr = inl c0.
Proof.
  induction ops as [|o ops IH]; intros s s2 tr Hs Hn H; simpl in *.
  - inversion H; reflexivity.
  - apply andb_true_iff in Hn. destruct Hn as [Ho Hn].
    destruct (eop_run pf s o) as [s1 tr1] eqn:E1. destruct (run_ops pf s1 ops) as [s3 tr3] eqn:E.
    inversion H; subst; clear H.
    destruct (eop_ok _ _ _ _ _ Hs Ho E1) as [Hc Hs1].
    rewrite csteps_app, Hc. eapply IH; eassumption.
Qed.

Theorem run_check_ok pf init n ops :
  (pf = false \/ init = false) -> forallb (eop_hit_ok pf) ops = true ->
  check (snd (run_ops pf (start init n) ops)) = VOk.
Proof.
  intros Hs Hn. unfold check.
  destruct (run_ops pf (start init n) ops) as [s2 tr] eqn:E. simpl.
  rewrite (run_ops_ok pf ops (start init n) s2 tr Hs Hn E). reflexivity.
Qed.

Lemma hit_ok_false ops : forallb (eop_hit_ok false) ops = true.
Proof.
  induction ops as [|o ops IH]; simpl; [reflexivity|]. rewrite IH, andb_true_r.
  destruct o as [w|a c pre ws|n|n|]; simpl; try reflexivity.
  induction ws as [|w ws IHw]; simpl; [reflexivity | exact IHw].
Qed.

(* the model of the code: EVERY history, idempotent replays included, on initializing and in-use ledgers alike *)
Theorem trace_check_ok init ops : check (trace_of init ops) = VOk.
Proof. apply (run_check_ok false init 1 ops); [left; reflexivity | apply hit_ok_false]. Qed.

Theorem trace_from_check_ok init n ops : check (trace_from init n ops) = VOk.
Proof. apply (run_check_ok false init n ops); [left; reflexivity | apply hit_ok_false]. Qed.

(* the historical variant was correct on in-use ledgers and without replays only *)
Theorem trace_pre_fix_check_ok ops : forallb (eop_hit_ok true) ops = true -> check (trace_pre_fix false ops) = VOk.
Proof. intros Hn. apply (run_check_ok true false 1 ops); [right; reflexivity | exact Hn]. Qed.

(* an idempotent replay through the facade publishes nothing, whatever the ledger state and the armed faults *)
Definition is_publish (a : act) : bool := match a with Publish _ => true | _ => false end.
Lemma replay_silent s d id s' tr :
  eop_run false s (OWrite {| w_dry := d; w_out := WHit id |}) = (s', tr) -> existsb is_publish tr = false.
Proof.
  destruct s as [ini nl cf cc cn]. intros H.
  destruct ini, d, cc as [[|m]|], cf as [[|n]|];
    unfold eop_run, facade_write, ev_write, forge_log, ctrl_commit, ctrl_rollback, sql_commit, commit_acts, lock_frame, begin_frame, root in H;
    simpl in H; inversion H; subst; reflexivity.
Qed.

(* ---------- what a passing judgement means, declaratively ----------
   [closed_after id pre]: in [pre] the log was appended inside a top-level transaction whose COMMIT succeeded:
   pre = a ++ LogAppended id :: b ++ SqlCommitOk :: c with no transaction boundary in b. *)
Definition is_boundary (a : act) : bool :=
  match a with SqlBegin | SqlCommitOk | SqlCommitFail | SqlRollback => true | _ => false end.
Definition committed_in (id : Z) (pre : list act) : Prop :=
  exists a b c, pre = a ++ LogAppended id :: b ++ SqlCommitOk :: c /\ forallb (fun x => negb (is_boundary x)) b = true.
Definition appended_open (id : Z) (pre : list act) : Prop :=
  exists a b, pre = a ++ LogAppended id :: b /\ forallb (fun x => negb (is_boundary x)) b = true.

Definition cinv (pre : list act) (c : cst) : Prop :=
  (forall id, zmem id (c_ready c) = true -> committed_in id pre) /\
  (forall id, zmem id (c_pending c) = true -> appended_open id pre).

Lemma zmem_app x a b : zmem x (a ++ b) = zmem x a || zmem x b.
Proof. induction a as [|y a IH]; simpl; [reflexivity | rewrite IH; apply orb_assoc]. Qed.

Lemma zmem_remove1 x y l : zmem x (zremove1 y l) = true -> zmem x l = true.
Proof.
  induction l as [|z l IH]; simpl; [auto|].
  destruct (y =? z); simpl; intros H.
  - rewrite H. apply orb_true_r.
  - apply orb_true_iff in H. destruct H as [H|H]; [rewrite H; reflexivity | rewrite (IH H); apply orb_true_r].
Qed.

Ltac list_eq := repeat (rewrite <- app_assoc; simpl); reflexivity.

Lemma committed_in_snoc id pre x : committed_in id pre -> committed_in id (pre ++ [x]).
Proof.
  intros (a & b & c & -> & Hb). exists a, b, (c ++ [x]). split; [|exact Hb].
  list_eq.
Qed.

Lemma cstep_inv pre c x c' : cinv pre c -> cstep c x = inl c' -> cinv (pre ++ [x]) c'.
Proof.
  intros [Hr Hp] H. destruct x; simpl in H.
  - destruct (c_open c); [discriminate|]. inversion H; subst; clear H. split; simpl.
    + intros id Hid. apply committed_in_snoc, Hr, Hid.
    + intros id Hid. discriminate.
  - destruct (c_open c); [|discriminate]. inversion H; subst; clear H. split; simpl.
    + intros id Hid. rewrite zmem_app in Hid. apply orb_true_iff in Hid. destruct Hid as [Hid|Hid].
      * apply committed_in_snoc, Hr, Hid.
      * destruct (Hp id Hid) as (a & b & -> & Hb). exists a, b, []. split; [|exact Hb].
        list_eq.
    + intros id Hid. discriminate.
  - destruct (c_open c); [|discriminate]. inversion H; subst; clear H. split; simpl.
    + intros id Hid. apply committed_in_snoc, Hr, Hid.
    + intros id Hid. discriminate.
  - destruct (c_open c); [|discriminate]. inversion H; subst; clear H. split; simpl.
    + intros id Hid. apply committed_in_snoc, Hr, Hid.
    + intros id Hid. discriminate.
  - destruct (c_open c); [|discriminate]. inversion H; subst; clear H. split; simpl.
    + intros i Hi. apply committed_in_snoc, Hr, Hi.
    + intros i Hi. rewrite zmem_app in Hi. apply orb_true_iff in Hi. destruct Hi as [Hi|Hi].
      * destruct (Hp i Hi) as (a & b & -> & Hb). exists a, (b ++ [LogAppended id]). split.
        -- list_eq.
        -- rewrite forallb_app, Hb. reflexivity.
      * simpl in Hi. rewrite orb_false_r in Hi. apply Z.eqb_eq in Hi. subst i.
        exists pre, []. split; reflexivity.
  - destruct (zmem id (c_ready c)) eqn:Em.
    + inversion H; subst; clear H. split; simpl.
      * intros i Hi. apply committed_in_snoc, Hr. eapply zmem_remove1; exact Hi.
      * intros i Hi. destruct (Hp i Hi) as (a & b & -> & Hb). exists a, (b ++ [Publish id]). split.
        -- list_eq.
        -- rewrite forallb_app, Hb. reflexivity.
    + destruct (zmem id (c_pending c)); discriminate.
Qed.

Lemma cstep_never_ok c a : cstep c a <> inr VOk.
Proof.
  destruct a; simpl; try (destruct (c_open c); discriminate).
  destruct (zmem id (c_ready c)); [discriminate|]. destruct (zmem id (c_pending c)); discriminate.
Qed.

Lemma csteps_never_ok tr : forall c, csteps c tr <> inr VOk.
Proof.
  induction tr as [|x tr IH]; intros c; simpl; [discriminate|].
  destruct (cstep c x) as [c'|v] eqn:E; [apply IH|].
  intros H. inversion H; subst. exact (cstep_never_ok c x E).
Qed.

Lemma csteps_sound tr : forall pre c cf,
  cinv pre c -> csteps c tr = inl cf ->
  forall p id q, tr = p ++ Publish id :: q -> committed_in id (pre ++ p).
Proof.
  induction tr as [|x tr IH]; intros pre c cf Hi H p id q E.
  - destruct p; discriminate.
  - simpl in H. destruct (cstep c x) as [c'|v] eqn:Ec; [|discriminate].
    destruct p as [|y p]; simpl in E; inversion E; subst; clear E.
    + rewrite app_nil_r. simpl in Ec. destruct (zmem id (c_ready c)) eqn:Em.
      * apply (proj1 Hi). exact Em.
      * destruct (zmem id (c_pending c)); discriminate.
    + pose proof (cstep_inv _ _ _ _ Hi Ec) as Hi'.
      specialize (IH _ _ _ Hi' H p id q eq_refl).
      rewrite <- app_assoc in IH. exact IH.
Qed.

Lemma cinv_c0 : cinv [] c0.
Proof. split; intros id H; discriminate. Qed.

(* a passing trace: every Publish comes after the successful COMMIT of the top-level transaction in which its log was appended *)
Theorem check_ok_publish_after_commit tr :
  check tr = VOk -> forall p id q, tr = p ++ Publish id :: q -> committed_in id p.
Proof.
  unfold check. intros H p id q E.
  destruct (csteps c0 tr) as [c|v] eqn:Ec.
  - exact (csteps_sound tr [] c0 c cinv_c0 Ec p id q E).
  - subst v. exfalso. exact (csteps_never_ok tr c0 Ec).
Qed.
