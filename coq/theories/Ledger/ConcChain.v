(* Concurrent model of the log hash chain: the lock protocol of Store.InsertLog (HASH_LOGS = SYNC) as an interleaving semantics
   over the store calls that matter for the chain, for requests that insert SEVERAL logs in one SQL transaction (atomic bulks:
   Bulker.Run -> Controller.BeginTX, every element runs forgeLog on the returned controller, one COMMIT at the end) next to
   single writes.  It complements Ledger/Conc.v (single-posting requests, every store call a step) the way Ledger/ConcImport.v
   does for Import: only the statements that touch the shared chain state are steps.

   One request = one SQL transaction:
       BEGIN [ISOLATION LEVEL ..]                      (no step: reads nothing)
       first statement                                 CStart: fixes the snapshot of a REPEATABLE READ transaction
       for each element (the statements on accounts / volumes / transactions are not steps: the model is about requests on
       disjoint accounts, where they never wait; the schedule harness checks that they do not):
         select pg_advisory_xact_lock(<ledger id>)     CAdv : transaction scoped - held from here to COMMIT / ROLLBACK, re-entrant
         insert into logs ...                          CLog : id = nextval (never rolled back); BEFORE INSERT trigger set_log_hash:
                                                              previousHash := hash of the greatest-id row VISIBLE to the statement,
                                                              new.hash := H (pre previousHash new)
         (an element that fails before its insert - funds check, ... - sends the whole request to ROLLBACK)
       COMMIT                                          CCommit: the request's rows become visible to snapshots taken from now on
   Visibility (PostgreSQL 13.2; executable counterpart: harness/go/pgsem): a statement sees its own transaction's rows and the
   rows committed before its snapshot.  READ COMMITTED (13.2.1): the snapshot is taken when the statement starts - for the INSERT
   that is AFTER the advisory lock was granted.  REPEATABLE READ (13.2.2): the snapshot of the transaction's first statement, for
   every statement, triggers included; waiting for / obtaining the advisory lock does not refresh it.  The advisory lock and the
   sequence are not snapshot-bound (13.3.5, 9.17).

   The chain itself is Ledger/HashChain.v (rows of any type with an id, ANY hash function H, ANY pre-image function pre;
   pre = None: the trigger raises, the transaction is aborted).  A schedule is a list of request indices; [run] folds [step]. *)
From Coq Require Import List ZArith Bool Arith Lia Sorted Ascii.
From LV Require Import Base.Util Base.Json Ledger.HashChain.
Import ListNotations.
Open Scope Z_scope.

Definition rid := nat.
Inductive iso := RC | RR.
(* q_elems: one entry per element; true = the element reaches its log insert, false = it fails before (the request rolls back) *)
Record creq := { q_iso : iso; q_elems : list bool }.
Definition single : creq := {| q_iso := RC; q_elems := [true] |}.

Inductive cpc := CStart | CAdv | CLog | CCommit | CRollback | CDone.
Inductive clab := LAdv | LLog | LCommit | LRollback.
Inductive cstat := SDone | SBlocked.
Inductive cres := RPending | ROk (ids : list Z) | RRolledBack.

Definition next_pc (rest : list bool) : cpc :=
  match rest with [] => CCommit | true :: _ => CAdv | false :: _ => CRollback end.

Record wst := { w_req : creq; w_pc : cpc; w_rest : list bool; w_k : nat; w_snap : option nat; w_ids : list Z; w_res : cres }.
Definition new_req (q : creq) : wst :=
  {| w_req := q; w_pc := CStart; w_rest := q_elems q; w_k := 0%nat; w_snap := None; w_ids := []; w_res := RPending |}.

Fixpoint upd_nth {A} (l : list A) (n : nat) (f : A -> A) : list A :=
  match l, n with
  | [], _ => []
  | x :: r, O => f x :: r
  | x :: r, S m => x :: upd_nth r m f
  end.

Section Model.
  Context {P : Type}.                                   (* what a log carries besides its id *)
  Variable H : bytes -> bytes.
  Variable pre : option bytes -> (Z * P) -> option bytes.
  Variable pay : rid -> nat -> P.                       (* the log written by element k of request w *)

  (* r_seq: None = written by a transaction still open; Some n = made visible by the n-th COMMIT *)
  Record crow := { r_id : Z; r_pay : P; r_hash : bytes; r_own : rid; r_seq : option nat }.

  Record gst := { g_rows : list crow; g_next : Z; g_adv : option rid; g_ncommit : nat; g_ws : list wst;
                  g_commits : list rid; g_ev : list (rid * clab * cstat) }.   (* the last two are ghosts: commit order, event trace *)

  Definition set_ws g x := {| g_rows := g_rows g; g_next := g_next g; g_adv := g_adv g; g_ncommit := g_ncommit g; g_ws := x; g_commits := g_commits g; g_ev := g_ev g |}.
  Definition upd_w (g : gst) (w : rid) (f : wst -> wst) : gst := set_ws g (upd_nth (g_ws g) w f).
  Definition ev (g : gst) (w : rid) (l : clab) (s : cstat) : gst :=
    {| g_rows := g_rows g; g_next := g_next g; g_adv := g_adv g; g_ncommit := g_ncommit g; g_ws := g_ws g; g_commits := g_commits g; g_ev := g_ev g ++ [(w, l, s)] |}.

  Definition holds (g : gst) (w : rid) : bool := match g_adv g with Some h => Nat.eqb h w | None => false end.

  (* the logs table as HashChain sees it *)
  Definition tbl (rs : list crow) : list (@row (Z * P)) := map (fun r => ((r_id r, r_pay r), r_hash r)) rs.

  (* MVCC visibility of a row to a statement of request w running on snapshot sn (= number of COMMITs it can see) *)
  Definition sees (w : rid) (sn : nat) (r : crow) : bool :=
    match r_seq r with Some n => Nat.leb n sn | None => Nat.eqb (r_own r) w end.
  (* the snapshot a statement of s starts with *)
  Definition stmt_snap (g : gst) (s : wst) : nat :=
    match q_iso (w_req s), w_snap s with RR, Some n => n | _, _ => g_ncommit g end.
  (* set_log_hash: select hash from logs order by id desc limit 1, on the rows the INSERT statement sees *)
  Definition trigger_prev (g : gst) (w : rid) (s : wst) : option bytes :=
    prev_hash fst (tbl (filter (sees w (stmt_snap g s)) (g_rows g))).

  (* rows of w's open transaction *)
  Definition mine (w : rid) (r : crow) : bool := match r_seq r with None => Nat.eqb (r_own r) w | Some _ => false end.
  Definition release (g : gst) (w : rid) : option rid := if holds g w then None else g_adv g.

  (* the end of a transaction that did not commit: its rows disappear, its advisory lock is released *)
  Definition abort (g : gst) (w : rid) : gst :=
    {| g_rows := filter (fun r => negb (mine w r)) (g_rows g); g_next := g_next g; g_adv := release g w; g_ncommit := g_ncommit g;
       g_ws := g_ws g; g_commits := g_commits g; g_ev := g_ev g |}.

  Definition do_start (g : gst) (w : rid) (s : wst) : gst :=
    upd_w g w (fun s => {| w_req := w_req s; w_pc := next_pc (w_rest s); w_rest := w_rest s; w_k := w_k s;
                           w_snap := Some (g_ncommit g); w_ids := w_ids s; w_res := w_res s |}).

  Definition set_pc (s : wst) (p : cpc) : wst :=
    {| w_req := w_req s; w_pc := p; w_rest := w_rest s; w_k := w_k s; w_snap := w_snap s; w_ids := w_ids s; w_res := w_res s |}.

  Definition do_adv (g : gst) (w : rid) (s : wst) : gst :=
    match g_adv g with
    | Some h => if Nat.eqb h w then ev (upd_w g w (fun s => set_pc s CLog)) w LAdv SDone else ev g w LAdv SBlocked
    | None =>
      ev (upd_w {| g_rows := g_rows g; g_next := g_next g; g_adv := Some w; g_ncommit := g_ncommit g; g_ws := g_ws g; g_commits := g_commits g; g_ev := g_ev g |}
                w (fun s => set_pc s CLog)) w LAdv SDone
    end.

  Definition do_log (g : gst) (w : rid) (s : wst) : gst :=
    if negb (holds g w) then g else                       (* InsertLog takes the lock first: unreachable *)
    let id := g_next g in
    let l := (id, pay w (w_k s)) in
    match pre (trigger_prev g w s) l with
    | Some x =>
      let r := {| r_id := id; r_pay := snd l; r_hash := H x; r_own := w; r_seq := None |} in
      ev (upd_w {| g_rows := g_rows g ++ [r]; g_next := id + 1; g_adv := g_adv g; g_ncommit := g_ncommit g; g_ws := g_ws g; g_commits := g_commits g; g_ev := g_ev g |}
                w (fun s => {| w_req := w_req s; w_pc := next_pc (tl (w_rest s)); w_rest := tl (w_rest s); w_k := S (w_k s);
                               w_snap := w_snap s; w_ids := w_ids s ++ [id]; w_res := w_res s |})) w LLog SDone
    | None =>                                             (* the trigger raises: the transaction is aborted at once; the id is lost *)
      let g1 := abort g w in
      ev (upd_w {| g_rows := g_rows g1; g_next := id + 1; g_adv := g_adv g1; g_ncommit := g_ncommit g1; g_ws := g_ws g1; g_commits := g_commits g1; g_ev := g_ev g1 |}
                w (fun s => set_pc s CRollback)) w LLog SDone
    end.

  Definition stamp (w : rid) (n : nat) (r : crow) : crow :=
    if mine w r then {| r_id := r_id r; r_pay := r_pay r; r_hash := r_hash r; r_own := r_own r; r_seq := Some n |} else r.

  Definition do_commit (g : gst) (w : rid) (s : wst) : gst :=
    let n := S (g_ncommit g) in
    ev (upd_w {| g_rows := map (stamp w n) (g_rows g); g_next := g_next g; g_adv := release g w; g_ncommit := n; g_ws := g_ws g;
                 g_commits := g_commits g ++ [w]; g_ev := g_ev g |}
              w (fun s => {| w_req := w_req s; w_pc := CDone; w_rest := w_rest s; w_k := w_k s; w_snap := w_snap s; w_ids := w_ids s; w_res := ROk (w_ids s) |}))
       w LCommit SDone.

  Definition do_rollback (g : gst) (w : rid) (s : wst) : gst :=
    ev (upd_w (abort g w) w (fun s => {| w_req := w_req s; w_pc := CDone; w_rest := w_rest s; w_k := w_k s; w_snap := w_snap s; w_ids := w_ids s; w_res := RRolledBack |}))
       w LRollback SDone.

  Definition step (g : gst) (w : rid) : gst :=
    match nth_error (g_ws g) w with
    | None => g
    | Some s =>
      match w_pc s with
      | CStart => do_start g w s | CAdv => do_adv g w s | CLog => do_log g w s
      | CCommit => do_commit g w s | CRollback => do_rollback g w s | CDone => g
      end
    end.

  Definition run (g : gst) (sched : list rid) : gst := fold_left step sched g.

  Definition init (reqs : list creq) : gst :=
    {| g_rows := []; g_next := 1; g_adv := None; g_ncommit := 0%nat; g_ws := map new_req reqs; g_commits := []; g_ev := [] |}.

  (* what a reader sees: the committed rows *)
  Definition committed (r : crow) : bool := match r_seq r with Some _ => true | None => false end.
  Definition committed_rows (g : gst) : list crow := filter committed (g_rows g).

  (* ---- what the schedule harness runs: a sequential prefix of n single writes (requests 0..n-1, run to completion one after the
     other), then the racing requests (n, n+1, ...): first each one's first statement in index order (the harness lets every
     request run up to its first scheduling point before the race starts), then the schedule *)
  Definition serial (n : nat) : list rid := flat_map (fun i => repeat i 4%nat) (seq 0 n).
  Definition clear_ghosts (g : gst) : gst :=
    {| g_rows := g_rows g; g_next := g_next g; g_adv := g_adv g; g_ncommit := g_ncommit g; g_ws := g_ws g; g_commits := []; g_ev := [] |}.
  Definition full_schedule (n m : nat) (sched : list rid) : list rid := seq n m ++ map (Nat.add n) sched.
  Definition chain_outcome (n : nat) (racers : list creq) (sched : list rid) : gst :=
    run (clear_ghosts (run (init (repeat single n ++ racers)) (serial n))) (full_schedule n (List.length racers) sched).
End Model.

(* ---- the instance modelrun prints: H = identity, pre = "my id in front of the predecessor's hash": the hash of a log is the
   path of ids it chains through, newest first; the second element is the predecessor the trigger read (0 = none) *)
Definition pathH (b : bytes) : bytes := b.
Definition path_pre (p : option bytes) (l : Z * unit) : option bytes :=
  Some (ascii_of_N (Z.to_N (fst l)) :: match p with None => [] | Some x => x end).
Definition path_prev (h : bytes) : Z := match h with _ :: c :: _ => Z.of_N (N_of_ascii c) | _ => 0 end.
Definition link_outcome (n : nat) (racers : list creq) (sched : list rid) : gst (P := unit) :=
  chain_outcome pathH path_pre (fun _ _ => tt) n racers sched.
(* (id, id of the log it chains from) of every stored log, in insertion order *)
Definition links (g : gst (P := unit)) : list (Z * Z) := map (fun r => (r_id r, path_prev (r_hash r))) (g_rows g).
Definition results (g : gst (P := unit)) : list cres := map w_res (g_ws g).
