(* Proofs about Ledger/Multi.v: frame of writes, scope of reads under the alone-in-bucket flag, maintenance of the flag. *)
From Coq Require Import List ZArith String Bool Lia.
From LV Require Import Base.Util Ledger.Types Ledger.Core Ledger.Invariants Ledger.Multi.
Import ListNotations.
Open Scope Z_scope.

(* ---------- flags (association list keyed by (process, bucket)) ---------- *)
Lemma fkey_eqb_refl k : fkey_eqb k k = true.
Proof. unfold fkey_eqb. now rewrite Z.eqb_refl, String.eqb_refl. Qed.

Lemma fkey_eqb_eq a b : fkey_eqb a b = true -> a = b.
Proof.
  unfold fkey_eqb. intros H. apply andb_true_iff in H as [H1 H2].
  apply Z.eqb_eq in H1. apply String.eqb_eq in H2. destruct a, b; simpl in *; congruence.
Qed.

Lemma aget_aset_same (m : list ((proc * bname) * bool)) k v : aget fkey_eqb (aset fkey_eqb m k v) k = Some v.
Proof.
  induction m as [|[k' v'] r IH]; simpl.
  - now rewrite fkey_eqb_refl.
  - destruct (fkey_eqb k' k) eqn:E; simpl; rewrite E; auto.
Qed.

Lemma aget_aset_other (m : list ((proc * bname) * bool)) k v k2 : k2 <> k -> aget fkey_eqb (aset fkey_eqb m k v) k2 = aget fkey_eqb m k2.
Proof.
  intros Hne. induction m as [|[k' v'] r IH]; simpl.
  - destruct (fkey_eqb k k2) eqn:E; auto. apply fkey_eqb_eq in E. congruence.
  - destruct (fkey_eqb k' k) eqn:E; simpl.
    + apply fkey_eqb_eq in E. subst k'. destruct (fkey_eqb k k2) eqn:E2; auto. apply fkey_eqb_eq in E2. congruence.
    + destruct (fkey_eqb k' k2); auto.
Qed.

Lemma flag_set_same ls fl p b v : flag {| ms_ledgers := ls; ms_flags := set_flag fl p b v |} p b = v.
Proof. unfold flag, set_flag; simpl. now rewrite aget_aset_same. Qed.

Lemma flag_set_other ls ls' fl p b v p' b' :
  (p', b') <> (p, b) -> flag {| ms_ledgers := ls; ms_flags := set_flag fl p b v |} p' b' = flag {| ms_ledgers := ls'; ms_flags := fl |} p' b'.
Proof. intros H. unfold flag, set_flag; simpl. now rewrite aget_aset_other. Qed.

(* ---------- finding ledgers ---------- *)
Lemma find_ledger_none ls L : ~ In L (map le_name ls) -> find_ledger ls L = None.
Proof.
  induction ls as [|h t IH]; simpl; auto. intros H. unfold name_is at 1.
  destruct (String.eqb (le_name h) L) eqn:E.
  - apply String.eqb_eq in E. tauto.
  - apply IH. tauto.
Qed.

Lemma find_ledger_some ls L e : find_ledger ls L = Some e -> In e ls /\ le_name e = L.
Proof.
  intros H. apply find_some in H as [H1 H2]. split; auto. now apply String.eqb_eq in H2.
Qed.

Lemma find_ledger_none_notin ls L : find_ledger ls L = None -> ~ In L (map le_name ls).
Proof.
  intros H Hin. apply in_map_iff in Hin as [e [He Hin]].
  apply (find_none _ _ H) in Hin. unfold name_is in Hin. rewrite He, String.eqb_refl in Hin. discriminate.
Qed.

(* ---------- C19: frame of every event on the other ledgers ---------- *)
Lemma step_entry_name now o e : le_name (step_entry now o e) = le_name e.
Proof. unfold step_entry. destruct (step _ _ _ _); reflexivity. Qed.
Lemma step_entry_bucket now o e : le_bucket (step_entry now o e) = le_bucket e.
Proof. unfold step_entry. destruct (step _ _ _ _); reflexivity. Qed.

Lemma find_map_other ls L L' now o : L <> L' ->
  find_ledger (map (fun e => if name_is L e then step_entry now o e else e) ls) L' = find_ledger ls L'.
Proof.
  intros Hne. induction ls as [|h t IH]; simpl; auto.
  destruct (name_is L h) eqn:E.
  - unfold name_is at 1. rewrite step_entry_name.
    unfold name_is in E. apply String.eqb_eq in E.
    assert (String.eqb (le_name h) L' = false) as -> by (apply String.eqb_neq; congruence).
    unfold name_is at 2. assert (String.eqb (le_name h) L' = false) as -> by (apply String.eqb_neq; congruence).
    exact IH.
  - destruct (name_is L' h); auto.
Qed.

Lemma find_app_other ls L L' b f :
  L <> L' -> find_ledger (ls ++ [{| le_name := L; le_bucket := b; le_feat := f; le_state := init_state |}]) L' = find_ledger ls L'.
Proof.
  intros Hne. induction ls as [|h t IH]; simpl.
  - unfold name_is; simpl. assert (String.eqb L L' = false) as -> by (now apply String.eqb_neq). reflexivity.
  - destruct (name_is L' h); auto.
Qed.

Theorem mstep_frame s ev L' : addressed ev <> L' -> project (mstep s ev) L' = project s L'.
Proof.
  intros Hne. destruct ev as [p L b f|p L|L now o]; simpl in *; unfold project.
  - destruct (find_ledger (ms_ledgers s) L); simpl; auto. now apply find_app_other.
  - destruct (find_ledger (ms_ledgers s) L); simpl; auto.
  - simpl. now apply find_map_other.
Qed.

Theorem mrun_frame evs : forall s L', (forall ev, In ev evs -> addressed ev <> L') -> project (mrun_from s evs) L' = project s L'.
Proof.
  induction evs as [|ev r IH]; intros s L' H; simpl; auto.
  unfold mrun_from in *. simpl. rewrite IH by (intros; apply H; now right).
  apply mstep_frame. apply H. now left.
Qed.

(* on the addressed ledger the bucket-level step IS the one-ledger step *)
Lemma mstep_op_self s L now o : names_unique s ->
  project (mstep_op s L now o) L = option_map (step_entry now o) (project s L).
Proof.
  unfold names_unique, project, mstep_op; simpl. induction (ms_ledgers s) as [|h t IH]; simpl; auto.
  intros Hnd. inversion Hnd as [|x l Hnotin Hnd']; subst.
  destruct (name_is L h) eqn:E.
  - unfold name_is at 1. rewrite step_entry_name. unfold name_is in E. rewrite E. reflexivity.
  - unfold name_is in E. unfold name_is at 1. rewrite E. now apply IH.
Qed.

(* ---------- shape preserved by events ---------- *)
Lemma map_names_step ls L now o : map le_name (map (fun e => if name_is L e then step_entry now o e else e) ls) = map le_name ls.
Proof. induction ls as [|h t IH]; simpl; auto. rewrite IH. destruct (name_is L h); auto. now rewrite step_entry_name. Qed.

Lemma filter_bucket_step ls L now o b :
  List.length (filter (in_bucket b) (map (fun e => if name_is L e then step_entry now o e else e) ls)) = List.length (filter (in_bucket b) ls).
Proof.
  induction ls as [|h t IH]; simpl; auto.
  assert (in_bucket b (if name_is L h then step_entry now o h else h) = in_bucket b h) as ->.
  { destruct (name_is L h); auto. unfold in_bucket. now rewrite step_entry_bucket. }
  destruct (in_bucket b h); simpl; auto.
Qed.

Lemma count_in_step ls L now o b : count_in (map (fun e => if name_is L e then step_entry now o e else e) ls) b = count_in ls b.
Proof. unfold count_in. now rewrite filter_bucket_step. Qed.

Theorem mstep_names_unique s ev : names_unique s -> names_unique (mstep s ev).
Proof.
  unfold names_unique. intros H. destruct ev as [p L b f|p L|L now o]; simpl.
  - destruct (find_ledger (ms_ledgers s) L) eqn:E; simpl; auto.
    rewrite map_app. simpl. apply find_ledger_none_notin in E. now apply nodup_snoc.
  - destruct (find_ledger (ms_ledgers s) L); simpl; auto.
  - now rewrite map_names_step.
Qed.

Theorem mrun_names_unique evs : names_unique (mrun evs).
Proof.
  unfold mrun. assert (names_unique minit) as H0 by (unfold names_unique; simpl; constructor).
  revert H0. generalize minit. induction evs as [|ev r IH]; intros s H; simpl; auto.
  apply IH. now apply mstep_names_unique.
Qed.

(* ---------- reads ---------- *)
Section Reads.
  Context {A : Type} (tbl : state -> list A).

  Lemma filter_rows_same n L (xs : list A) : String.eqb n L = true ->
    filter (fun r : lname * A => String.eqb (fst r) L) (map (pair n) xs) = map (pair n) xs.
  Proof. intros E. induction xs as [|x r IH]; simpl; auto. rewrite E, IH. reflexivity. Qed.

  Lemma filter_rows_other n L (xs : list A) : String.eqb n L = false ->
    filter (fun r : lname * A => String.eqb (fst r) L) (map (pair n) xs) = [].
  Proof. intros E. induction xs as [|x r IH]; simpl; auto. now rewrite E. Qed.

  (* WHERE ledger = L on the bucket's table selects exactly the rows of L *)
  Lemma filter_bucket_rows ls b L : NoDup (map le_name ls) ->
    filter (fun r : lname * A => String.eqb (fst r) L) (bucket_rows tbl ls b) =
    match find_ledger ls L with Some e => if in_bucket b e then rows_of tbl e else [] | None => [] end.
  Proof.
    induction ls as [|h t IH]; simpl; auto. intros Hnd. inversion Hnd as [|x l Hnotin Hnd']; subst.
    rewrite filter_app. unfold name_is at 1. destruct (String.eqb (le_name h) L) eqn:E.
    - rewrite IH by assumption. apply String.eqb_eq in E as E'. subst L.
      rewrite (find_ledger_none t (le_name h)) by assumption. rewrite app_nil_r.
      destruct (in_bucket b h); simpl; auto. unfold rows_of. now apply filter_rows_same.
    - rewrite IH by assumption.
      assert (filter (fun r : lname * A => String.eqb (fst r) L) (if in_bucket b h then rows_of tbl h else []) = []) as ->.
      { destruct (in_bucket b h); simpl; auto. unfold rows_of. now apply filter_rows_other. }
      reflexivity.
  Qed.

  Lemma bucket_rows_filter ls b : bucket_rows tbl ls b = flat_map (rows_of tbl) (filter (in_bucket b) ls).
  Proof. unfold bucket_rows. induction ls as [|h t IH]; simpl; auto. rewrite IH. destruct (in_bucket b h); simpl; auto. Qed.

  (* a ledger alone in its bucket: the whole table is its own rows *)
  Lemma alone_bucket_rows ls b e : count_in ls b = 1 -> In e ls -> in_bucket b e = true -> bucket_rows tbl ls b = rows_of tbl e.
  Proof.
    intros Hc Hin Hb. rewrite bucket_rows_filter. unfold count_in in Hc.
    assert (In e (filter (in_bucket b) ls)) as Hf by (apply filter_In; auto).
    destruct (filter (in_bucket b) ls) as [|x [|y r]]; simpl in *; try lia.
    destruct Hf as [->|[]]. now rewrite app_nil_r.
  Qed.

  (* C19 (reads): with a truthful flag, a read on L returns exactly L's rows *)
  Theorem read_scope s p L e : names_unique s -> Inv_flag_proc s p -> project s L = Some e -> read_table tbl s p L = rows_of tbl e.
  Proof.
    intros Hnd Hinv Hp. unfold read_table. rewrite Hp. unfold project in Hp.
    destruct (find_ledger_some _ _ _ Hp) as [Hin Hname].
    assert (in_bucket (le_bucket e) e = true) as Hb by (unfold in_bucket; apply String.eqb_refl).
    unfold scoped_read. destruct (flag s p (le_bucket e)) eqn:F.
    - apply Hinv in F. now apply alone_bucket_rows.
    - rewrite filter_bucket_rows by exact Hnd. rewrite Hp, Hb. reflexivity.
  Qed.

  (* the API path: the store is opened (flag recomputed) right before the read *)
  Theorem fresh_open_scope s p L e : names_unique s -> project s L = Some e -> read_table tbl (mstep s (MOpen p L)) p L = rows_of tbl e.
  Proof.
    intros Hnd Hp. unfold project in Hp. simpl. rewrite Hp. unfold read_table, project; simpl. rewrite Hp.
    destruct (find_ledger_some _ _ _ Hp) as [Hin Hname].
    assert (in_bucket (le_bucket e) e = true) as Hb by (unfold in_bucket; apply String.eqb_refl).
    rewrite flag_set_same. unfold scoped_read. destruct (count_in (ms_ledgers s) (le_bucket e) =? 1) eqn:F.
    - apply Z.eqb_eq in F. now apply alone_bucket_rows.
    - rewrite filter_bucket_rows by exact Hnd. rewrite Hp, Hb. reflexivity.
  Qed.

  Lemma rows_of_snd e : map snd (rows_of tbl e) = tbl (le_state e).
  Proof. unfold rows_of. rewrite map_map. simpl. apply map_id. Qed.

  Lemma rows_of_tag e r : In r (rows_of tbl e) -> fst r = le_name e.
  Proof. unfold rows_of. intros H. apply in_map_iff in H as [x [<- _]]. reflexivity. Qed.
End Reads.

(* ---------- the flag ---------- *)
Lemma count_in_app_other ls L b f b' : b' <> b ->
  count_in (ls ++ [{| le_name := L; le_bucket := b; le_feat := f; le_state := init_state |}]) b' = count_in ls b'.
Proof.
  intros Hne. unfold count_in. rewrite filter_app. simpl. unfold in_bucket at 2; simpl.
  assert (String.eqb b b' = false) as -> by (apply String.eqb_neq; congruence). now rewrite app_nil_r.
Qed.

(* every event EXCEPT a creation by another process keeps process p's flags truthful *)
Theorem mstep_flag_proc s ev p :
  (forall q L b f, ev = MCreate q L b f -> q = p) -> Inv_flag_proc s p -> Inv_flag_proc (mstep s ev) p.
Proof.
  intros Hown Hinv. destruct ev as [q L b f|q L|L now o]; simpl.
  - assert (q = p) as -> by (eapply Hown; reflexivity).
    destruct (find_ledger (ms_ledgers s) L); auto.
    intros b' Hf. simpl. destruct (String.eqb b' b) eqn:E.
    + apply String.eqb_eq in E. subst b'. rewrite flag_set_same in Hf. now apply Z.eqb_eq in Hf.
    + apply String.eqb_neq in E. rewrite (flag_set_other _ (ms_ledgers s)) in Hf by congruence.
      rewrite count_in_app_other by assumption. apply Hinv. destruct s; exact Hf.
  - destruct (find_ledger (ms_ledgers s) L) as [e|]; auto.
    intros b' Hf. simpl. destruct (fkey_eqb (p, b') (q, le_bucket e)) eqn:E.
    + apply fkey_eqb_eq in E. inversion E; subst. rewrite flag_set_same in Hf. now apply Z.eqb_eq in Hf.
    + rewrite (flag_set_other _ (ms_ledgers s)) in Hf.
      * apply Hinv. destruct s; exact Hf.
      * intros Heq. rewrite Heq, fkey_eqb_refl in E. discriminate.
  - intros b' Hf. unfold mstep_op in *; simpl in *. rewrite count_in_step. apply Hinv. exact Hf.
Qed.

Theorem mrun_flag_proc evs p :
  (forall q L b f, In (MCreate q L b f) evs -> q = p) -> Inv_flag_proc (mrun evs) p.
Proof.
  unfold mrun. assert (Inv_flag_proc minit p) as H0 by (intros b H; discriminate H).
  revert H0. generalize minit. induction evs as [|ev r IH]; intros s Hinv Hown; simpl; auto.
  apply IH.
  - apply mstep_flag_proc; auto. intros q L b f ->. eapply Hown. now left.
  - intros q L b f Hin. eapply Hown. right. exact Hin.
Qed.

(* ---------- unique indexes keyed (ledger, …) = the one-ledger checks of Core ---------- *)
Lemma existsb_filter_snd {A} (f : lname * A -> bool) (g : A -> bool) rows :
  existsb (fun row => f row && g (snd row)) rows = existsb g (map snd (filter f rows)).
Proof. induction rows as [|x r IH]; simpl; auto. destruct (f x); simpl; rewrite IH; auto. Qed.

Lemma find_filter_snd {A} (f : lname * A -> bool) (g : A -> bool) rows :
  option_map snd (find (fun row => f row && g (snd row)) rows) = find g (map snd (filter f rows)).
Proof. induction rows as [|x r IH]; simpl; auto. destruct (f x); simpl; auto. destruct (g (snd x)); simpl; auto. Qed.

Theorem bucket_ref_taken_is_local s L e r : names_unique s -> project s L = Some e ->
  bucket_ref_taken (ms_ledgers s) (le_bucket e) L r = ref_taken (s_txs (le_state e)) r.
Proof.
  intros Hnd Hp. unfold bucket_ref_taken.
  rewrite (existsb_filter_snd (fun row => String.eqb (fst row) L) (fun t => String.eqb (t_ref t) r)).
  rewrite filter_bucket_rows by exact Hnd. unfold project in Hp. rewrite Hp.
  unfold in_bucket. rewrite String.eqb_refl, rows_of_snd. reflexivity.
Qed.

Theorem bucket_find_ik_is_local s L e ik : names_unique s -> project s L = Some e ->
  bucket_find_ik (ms_ledgers s) (le_bucket e) L ik = find_ik (s_logs (le_state e)) ik.
Proof.
  intros Hnd Hp. unfold bucket_find_ik, find_ik. destruct (String.eqb ik ""); auto.
  rewrite (find_filter_snd (fun row => String.eqb (fst row) L) (fun l => String.eqb (l_ik l) ik)).
  rewrite filter_bucket_rows by exact Hnd. unfold project in Hp. rewrite Hp.
  unfold in_bucket. rewrite String.eqb_refl, rows_of_snd. reflexivity.
Qed.
