(* C17, history of ACCOUNT metadata: with ACCOUNT_METADATA_HISTORY = SYNC an account read at time t carries the metadata the
   account had at time t (its current metadata in the state reached when the clock last showed a time <= t). *)
From Coq Require Import List ZArith String Bool Lia ZifyBool.
From LV Require Import Base.Util Ledger.Types Ledger.Core Ledger.Invariants Ledger.Reads Ledger.IkProofs Ledger.HistProofs.
Import ListNotations.
Open Scope Z_scope.

Definition abest (a : addr) (t : Z) (best : option ahist) (x : ahist) : option ahist :=
  if String.eqb (ah_addr x) a && (ah_date x <=? t)
  then match best with Some b => if ah_rev b <? ah_rev x then Some x else best | None => Some x end
  else best.
Definition asel (h : list ahist) (a : addr) (t : Z) : option ahist := fold_left (abest a t) h None.
Lemma ahist_at_unfold h a t : ahist_at h a t = match asel h a t with Some x => ah_meta x | None => [] end.
Proof. reflexivity. Qed.
Lemma asel_snoc h x a t : asel (h ++ [x]) a t = abest a t (asel h a t) x.
Proof. unfold asel. rewrite fold_left_app. reflexivity. Qed.

Lemma abest_other a t best x : ah_addr x <> a \/ t < ah_date x -> abest a t best x = best.
Proof.
  intros H. unfold abest. destruct H as [H|H].
  - destruct (String.eqb (ah_addr x) a) eqn:E; [apply String.eqb_eq in E; contradiction | reflexivity].
  - replace (ah_date x <=? t) with false by lia. rewrite andb_false_r. reflexivity.
Qed.

Lemma asel_skip a t ext : forall h, Forall (fun x => ah_addr x <> a \/ t < ah_date x) ext -> asel (h ++ ext) a t = asel h a t.
Proof.
  induction ext as [|x r IH] using rev_ind; intros h H; [rewrite app_nil_r; reflexivity|].
  apply Forall_app in H. destruct H as [Hr Hx1]. inversion Hx1 as [|? ? Hx' Hnil]; subst.
  rewrite app_assoc, asel_snoc, abest_other by exact Hx'. apply IH. exact Hr.
Qed.

Lemma asel_some h a t b : asel h a t = Some b -> In b h /\ ah_addr b = a.
Proof.
  revert b. induction h as [|x r IH] using rev_ind; intros b H; [discriminate|].
  rewrite asel_snoc in H. unfold abest in H. destruct (String.eqb (ah_addr x) a && (ah_date x <=? t)) eqn:C.
  - apply andb_true_iff in C. destruct C as [C _]. apply String.eqb_eq in C.
    destruct (asel r a t) as [b0|] eqn:E.
    + destruct (ah_rev b0 <? ah_rev x); injection H as <-.
      * split; [apply in_or_app; right; left; reflexivity | exact C].
      * destruct (IH b0 eq_refl) as [A B]. split; [apply in_or_app; left; exact A | exact B].
    + injection H as <-. split; [apply in_or_app; right; left; reflexivity | exact C].
  - destruct (IH b H) as [A B]. split; [apply in_or_app; left; exact A | exact B].
Qed.

Lemma next_rev_a_above h a : forall b, In b h -> ah_addr b = a -> ah_rev b < next_rev_a h a.
Proof.
  unfold next_rev_a.
  assert (G : forall l r0, (forall b, In b l -> ah_addr b = a -> ah_rev b < fold_left (fun r x => if String.eqb (ah_addr x) a then Z.max r (ah_rev x + 1) else r) l r0) /\
                           r0 <= fold_left (fun r x => if String.eqb (ah_addr x) a then Z.max r (ah_rev x + 1) else r) l r0).
  { induction l as [|x r IH]; intros r0; cbn [fold_left]; [split; [intros b [] | lia]|].
    destruct (String.eqb (ah_addr x) a) eqn:E.
    - destruct (IH (Z.max r0 (ah_rev x + 1))) as [A B]. split; [|lia].
      intros b [<-|Hb] Hid; [lia | apply A; assumption].
    - destruct (IH r0) as [A B]. split; [|exact B].
      intros b [<-|Hb] Hid; [rewrite Hid, String.eqb_refl in E; discriminate | apply A; assumption]. }
  intros b Hb Hid. exact (proj1 (G h 1) b Hb Hid).
Qed.

(* ---------- the invariant on (accounts, accounts_metadata) ---------- *)
Record ACur (accs : list account) (hist : list ahist) (t : Z) : Prop := {
  ac_cur : forall x, In x accs -> ahist_at hist (a_addr x) t = a_meta x;
  ac_rows : forall r, In r hist -> exists x, In x accs /\ a_addr x = ah_addr r;
  ac_nodup : NoDup (map a_addr accs)
}.

Lemma find_account_some accs a x : find_account accs a = Some x -> In x accs /\ a_addr x = a.
Proof. unfold find_account. intros H. apply find_some in H. destruct H as [A B]. apply String.eqb_eq in B. split; assumption. Qed.
Lemma find_account_none accs a : find_account accs a = None -> forall x, In x accs -> a_addr x <> a.
Proof. unfold find_account. intros H x Hx E. pose proof (find_none _ _ H x Hx) as N. cbn in N. rewrite E, String.eqb_refl in N. discriminate. Qed.

Lemma nodup_addr_unique accs x y : NoDup (map a_addr accs) -> In x accs -> In y accs -> a_addr x = a_addr y -> x = y.
Proof.
  induction accs as [|z zs IH]; intros Hn Hx Hy E; [destruct Hx|]. cbn [map] in Hn. inversion Hn as [|? ? Hnot Hn']; subst.
  destruct Hx as [<-|Hx]; destruct Hy as [<-|Hy].
  - reflexivity.
  - exfalso. apply Hnot. rewrite E. apply in_map. exact Hy.
  - exfalso. apply Hnot. rewrite <- E. apply in_map. exact Hx.
  - apply IH; assumption.
Qed.

Lemma upsert_account_acur now accs hist a md first ins upd t :
  now <= t -> (forall d, ins = Some d -> d <= t) -> (forall d, upd = Some d -> d <= t) ->
  ACur accs hist t ->
  let st := upsert_account true now (accs, hist) a md first ins upd in ACur (fst st) (snd st) t.
Proof.
  intros Hnow Hins Hupd [H1 H2 H3]. unfold upsert_account.
  destruct (find_account accs a) as [x|] eqn:F.
  - destruct (find_account_some _ _ _ F) as [Hx Ea].
    destruct (acc_needs_update x md first) eqn:C; cbn [fst snd]; [|constructor; assumption].
    assert (Hd : opt_default now upd <= t) by (destruct upd as [d|]; cbn; [apply Hupd; reflexivity | exact Hnow]).
    constructor.
    + intros y Hy. apply in_map_iff in Hy. destruct Hy as (z & Ez & Hz).
      rewrite ahist_at_unfold, asel_snoc.
      destruct (String.eqb (a_addr z) a && acc_needs_update z md first) eqn:Cz.
      * apply andb_true_iff in Cz. destruct Cz as [Cz1 _]. apply String.eqb_eq in Cz1.
        assert (z = x) by (apply (nodup_addr_unique accs); try assumption; congruence). subst z y.
        cbn [acc_updated a_addr a_meta a_upd]. unfold abest. cbn [ah_addr ah_date ah_rev ah_meta acc_updated a_upd a_meta].
        rewrite Ea, String.eqb_refl. replace (opt_default now upd <=? t) with true by lia. cbn [andb].
        destruct (asel hist a t) as [b|] eqn:Eb; [|reflexivity].
        destruct (asel_some _ _ _ _ Eb) as [Hbin Hba]. pose proof (next_rev_a_above hist a b Hbin Hba) as Hlt.
        replace (ah_rev b <? next_rev_a hist a) with true by lia. reflexivity.
      * subst y. destruct (String.eqb (a_addr z) a) eqn:Ez.
        -- apply String.eqb_eq in Ez. assert (z = x) by (apply (nodup_addr_unique accs); try assumption; congruence). subst z.
           cbn [andb] in Cz. congruence.
        -- rewrite abest_other; [rewrite <- ahist_at_unfold; apply H1; exact Hz|].
           left. cbn [ah_addr]. intros E. rewrite E, String.eqb_refl in Ez. discriminate.
    + intros r Hr. apply in_app_or in Hr. destruct Hr as [Hr|[<-|[]]].
      * destruct (H2 r Hr) as (y & Hy & Ey). exists (if String.eqb (a_addr y) a && acc_needs_update y md first then acc_updated now y md first upd else y).
        split; [apply in_map_iff; exists y; split; [reflexivity | exact Hy]|]. destruct (_ && _); cbn; exact Ey.
      * exists (acc_updated now x md first upd). split; [|cbn; exact Ea].
        apply in_map_iff. exists x. split; [|exact Hx]. rewrite Ea, String.eqb_refl, C. reflexivity.
    + rewrite map_map. erewrite map_ext; [exact H3|]. intros y. destruct (_ && _); reflexivity.
  - pose proof (find_account_none _ _ F) as Hnone. cbn [fst snd].
    assert (Hd : opt_default now ins <= t) by (destruct ins as [d|]; cbn; [apply Hins; reflexivity | exact Hnow]).
    constructor.
    + intros y Hy. apply in_app_or in Hy. rewrite ahist_at_unfold, asel_snoc. destruct Hy as [Hy|[<-|[]]].
      * rewrite abest_other; [rewrite <- ahist_at_unfold; apply H1; exact Hy|]. left. cbn [ah_addr]. intros E. exact (Hnone y Hy (eq_sym E)).
      * cbn [a_addr a_meta]. assert (Hn : asel hist a t = None).
        { destruct (asel hist a t) as [b|] eqn:Eb; [|reflexivity]. destruct (asel_some _ _ _ _ Eb) as [Hbin Hba].
          destruct (H2 b Hbin) as (y & Hy & Ey). exfalso. apply (Hnone y Hy). congruence. }
        rewrite Hn. unfold abest. cbn [ah_addr ah_date ah_meta a_ins]. rewrite String.eqb_refl. replace (opt_default now ins <=? t) with true by lia. reflexivity.
    + intros r Hr. apply in_app_or in Hr. destruct Hr as [Hr|[<-|[]]].
      * destruct (H2 r Hr) as (y & Hy & Ey). exists y. split; [apply in_or_app; left; exact Hy | exact Ey].
      * eexists. split; [apply in_or_app; right; left; reflexivity | reflexivity].
    + rewrite map_app. cbn [map a_addr]. apply nodup_snoc; [exact H3|]. intros Hin. apply in_map_iff in Hin. destruct Hin as (y & Ey & Hy). exact (Hnone y Hy Ey).
Qed.

Lemma upsert_fold_acur now (g : addr -> meta) first ins upd t l : forall st,
  now <= t -> (forall d, ins = Some d -> d <= t) -> (forall d, upd = Some d -> d <= t) ->
  ACur (fst st) (snd st) t ->
  let st' := fold_left (fun st a => upsert_account true now st a (g a) first ins upd) l st in ACur (fst st') (snd st') t.
Proof.
  induction l as [|a r IH]; intros [accs hist] Hnow Hins Hupd HC; cbn [fold_left]; [exact HC|].
  apply IH; try assumption. apply (upsert_account_acur now accs hist a (g a) first ins upd t); assumption.
Qed.

Definition ACurS (s : state) (t : Z) : Prop := ACur (s_accounts s) (s_ahist s) t.

Lemma acurs_init t : ACurS init_state t.
Proof. constructor; cbn; [intros x [] | intros r [] | constructor]. Qed.

Lemma del_acur now accs hist a k x t : now <= t -> find_account accs a = Some x -> ACur accs hist t ->
  let del := fun y => {| a_addr := a_addr y; a_meta := mdel (a_meta y) k; a_first := a_first y; a_ins := a_ins y; a_upd := now |} in
  ACur (map (fun y => if String.eqb (a_addr y) a then del y else y) accs)
       (hist ++ [{| ah_addr := a; ah_rev := next_rev_a hist a; ah_date := a_upd (del x); ah_meta := a_meta (del x) |}]) t.
Proof.
  intros Hnow F [H1 H2 H3] del. destruct (find_account_some _ _ _ F) as [Hx Ea]. constructor.
  - intros y Hy. apply in_map_iff in Hy. destruct Hy as (z & Ez & Hz). rewrite ahist_at_unfold, asel_snoc.
    destruct (String.eqb (a_addr z) a) eqn:E.
    + apply String.eqb_eq in E. assert (z = x) by (apply (nodup_addr_unique accs); try assumption; congruence). subst z y.
      unfold abest. cbn [ah_addr ah_date ah_rev ah_meta del a_addr a_upd a_meta]. rewrite Ea, String.eqb_refl. replace (now <=? t) with true by lia. cbn [andb].
      destruct (asel hist a t) as [b|] eqn:Eb; [|reflexivity].
      destruct (asel_some _ _ _ _ Eb) as [Hbin Hba]. pose proof (next_rev_a_above hist a b Hbin Hba) as Hlt.
      replace (ah_rev b <? next_rev_a hist a) with true by lia. reflexivity.
    + subst y. rewrite abest_other; [rewrite <- ahist_at_unfold; apply H1; exact Hz|].
      left. cbn [ah_addr]. intros E2. rewrite E2, String.eqb_refl in E. discriminate.
  - intros r Hr. apply in_app_or in Hr. destruct Hr as [Hr|[<-|[]]].
    + destruct (H2 r Hr) as (y & Hy & Ey). exists (if String.eqb (a_addr y) a then del y else y).
      split; [apply in_map_iff; exists y; split; [reflexivity | exact Hy]|]. destruct (String.eqb (a_addr y) a); cbn; exact Ey.
    + exists (del x). split; [|cbn; exact Ea]. apply in_map_iff. exists x. split; [|exact Hx]. rewrite Ea, String.eqb_refl. reflexivity.
  - rewrite map_map. erewrite map_ext; [exact H3|]. intros y. destruct (String.eqb (a_addr y) a); reflexivity.
Qed.

Lemma run_input_acurs f now s i t : f_acc_hist f = true -> now <= t -> ACurS s t -> ACurS (outcome_state (run_input f now s i) s) t.
Proof.
  intros Fh Hnow HC. unfold ACurS in *. script_split i.
  { simpl. unfold create_tx. destruct ps as [|p ps']; [exact HC|].
    destruct (feasible force (s_vols s) (p :: ps')); simpl; [|exact HC].
    destruct (commit_transaction f now s (p :: ps') md ts ref) as [s1 [x|]] eqn:E; simpl.
    + pose proof (commit_some _ _ _ _ _ _ _ _ _ E) as (_ & _ & _ & _ & _ & _ & _ & Hins & _ & _ & _ & _ & _ & Ha & Hh & _).
      unfold upsert_tx_accounts. rewrite Fh, Ha, Hh, Hins.
      pose proof (upsert_fold_acur now (amd_get amd) (Some (t_ts x)) (Some now) (Some now) t (involved_accounts (t_postings x) amd) (s_accounts s, s_ahist s)) as G.
      cbn [fst snd] in G. specialize (G Hnow).
      assert (Hd : forall d, Some now = Some d -> d <= t) by (intros d Ed; inversion Ed; subst; exact Hnow).
      specialize (G Hd Hd HC). destruct (fold_left _ _ (s_accounts s, s_ahist s)) as [a1 h1]. exact G.
    + pose proof (commit_none _ _ _ _ _ _ _ _ E) as (_ & _ & _ & Ha & Hh & _). rewrite Ha, Hh. exact HC. }
  destruct i as [ps ts ref md amd force | id force at_eff rmeta | [a|id] md | [a|id] k | ps ts ref md amd force smd samd];
    [apply Hc | | | | | | script_bullet Hc]; simpl.
  - destruct (find_tx (s_txs s) id) as [x|]; [|exact HC].
    destruct (t_rev x); [exact HC|].
    match goal with |- context [match ?c with RCOk => _ | RCInsufficient => _ | RCPanic => _ end] => destruct c end;
      cbn [outcome_state]; try exact HC.
    match goal with |- context [commit_transaction ?a ?b ?c ?d ?e ?g ?h] => destruct (commit_transaction a b c d e g h) as [s2 [r|]] eqn:E end; cbn [outcome_state].
    + pose proof (commit_some _ _ _ _ _ _ _ _ _ E) as (_ & _ & _ & _ & _ & _ & _ & _ & _ & _ & _ & _ & _ & Ha & Hh & _). rewrite Ha, Hh. exact HC.
    + pose proof (commit_none _ _ _ _ _ _ _ _ E) as (_ & _ & _ & Ha & Hh & _). rewrite Ha, Hh. exact HC.
  - rewrite Fh. pose proof (upsert_account_acur now (s_accounts s) (s_ahist s) a md (Some now) None None t Hnow) as G.
    assert (Hd : forall d, @None Z = Some d -> d <= t) by (intros d Ed; discriminate Ed).
    exact (G Hd Hd HC).
  - destruct (find_tx (s_txs s) id) as [x|]; [|exact HC]. destruct (mcontains (t_meta x) md); simpl; exact HC.
  - destruct (find_account (s_accounts s) a) as [x|] eqn:F; simpl; [|exact HC]. rewrite Fh.
    exact (del_acur now (s_accounts s) (s_ahist s) a k x t Hnow F HC).
  - destruct (find_tx (s_txs s) id) as [x|]; [|exact HC]. destruct (mget (t_meta x) k); simpl; exact HC.
Qed.

Theorem step_acurs f now s o s' r t : f_acc_hist f = true -> now <= t -> ACurS s t -> step f now s o = SR s' r -> ACurS s' t.
Proof.
  intros Fh Hnow HC H. unfold step in H.
  destruct (find_ik (s_logs s) (o_ik o)) as [l|].
  - destruct (input_eq_dec (l_input l) (o_in o)); inversion H; subst; exact HC.
  - pose proof (run_input_acurs f now s (o_in o) t Fh Hnow HC) as H1.
    destruct (run_input f now s (o_in o)) as [s1 p|s1 e|]; cbn [outcome_state] in *; [| |discriminate].
    + destruct (o_dry o); inversion H; subst; [exact HC | exact H1].
    + inversion H; subst. exact HC.
Qed.

(* ---------- after t: every later row of the accounts history is dated after t ---------- *)
Definition ahist_ext (t : Z) (s s' : state) : Prop :=
  exists ext, s_ahist s' = s_ahist s ++ ext /\ Forall (fun x => t < ah_date x) ext.
Lemma ahist_ext_refl t s : ahist_ext t s s. Proof. exists []. rewrite app_nil_r. split; [reflexivity | constructor]. Qed.
Lemma ahist_ext_trans t a b c : ahist_ext t a b -> ahist_ext t b c -> ahist_ext t a c.
Proof. intros (e1 & A1 & A2) (e2 & B1 & B2). exists (e1 ++ e2). rewrite B1, A1, app_assoc. split; [reflexivity | apply Forall_app; split; assumption]. Qed.
Lemma ahist_ext_same t s s' : s_ahist s' = s_ahist s -> ahist_ext t s s'.
Proof. intros E. exists []. rewrite E, app_nil_r. split; [reflexivity | constructor]. Qed.

Lemma upsert_account_ext b now accs hist a md first ins upd t :
  t < now -> (forall d, ins = Some d -> t < d) -> (forall d, upd = Some d -> t < d) ->
  exists ext, snd (upsert_account b now (accs, hist) a md first ins upd) = hist ++ ext /\ Forall (fun x => t < ah_date x) ext.
Proof.
  intros Hnow Hins Hupd. unfold upsert_account.
  assert (Hd1 : t < opt_default now upd) by (destruct upd as [d|]; cbn; [apply Hupd; reflexivity | exact Hnow]).
  assert (Hd2 : t < opt_default now ins) by (destruct ins as [d|]; cbn; [apply Hins; reflexivity | exact Hnow]).
  destruct (find_account accs a) as [x|]; [destruct (acc_needs_update x md first)|]; cbn [snd]; destruct b;
    try (exists []; rewrite app_nil_r; split; [reflexivity | constructor]);
    (eexists; split; [reflexivity | constructor; [cbn; assumption | constructor]]).
Qed.

Lemma upsert_fold_ext b now (g : addr -> meta) first ins upd t l : forall st,
  t < now -> (forall d, ins = Some d -> t < d) -> (forall d, upd = Some d -> t < d) ->
  exists ext, snd (fold_left (fun st a => upsert_account b now st a (g a) first ins upd) l st) = snd st ++ ext /\ Forall (fun x => t < ah_date x) ext.
Proof.
  induction l as [|a r IH]; intros [accs hist] Hnow Hins Hupd; cbn [fold_left].
  - exists []. rewrite app_nil_r. split; [reflexivity | constructor].
  - destruct (upsert_account_ext b now accs hist a (g a) first ins upd t Hnow Hins Hupd) as (e1 & A1 & A2).
    destruct (IH (upsert_account b now (accs, hist) a (g a) first ins upd) Hnow Hins Hupd) as (e2 & B1 & B2).
    exists (e1 ++ e2). rewrite B1, A1, app_assoc. cbn [snd]. split; [reflexivity | apply Forall_app; split; assumption].
Qed.

Lemma run_input_ahist_ext f now s i t : t < now -> ahist_ext t s (outcome_state (run_input f now s i) s).
Proof.
  intros Hnow. script_split i.
  { simpl. unfold create_tx. destruct ps as [|p ps']; [apply ahist_ext_refl|].
    destruct (feasible force (s_vols s) (p :: ps')); simpl; [|apply ahist_ext_refl].
    destruct (commit_transaction f now s (p :: ps') md ts ref) as [s1 [x|]] eqn:E; simpl.
    + pose proof (commit_some _ _ _ _ _ _ _ _ _ E) as (_ & _ & _ & _ & _ & _ & _ & Hins & _ & _ & _ & _ & _ & Ha & Hh & _).
      unfold upsert_tx_accounts, ahist_ext. rewrite Hins.
      assert (Hd : forall d, Some now = Some d -> t < d) by (intros d Ed; inversion Ed; subst; exact Hnow).
      destruct (upsert_fold_ext (f_acc_hist f) now (amd_get amd) (Some (t_ts x)) (Some now) (Some now) t (involved_accounts (t_postings x) amd) (s_accounts s1, s_ahist s1) Hnow Hd Hd) as (ext & A & B).
      destruct (fold_left _ _ (s_accounts s1, s_ahist s1)) as [a1 h1]. cbn [snd s_ahist] in *. exists ext. rewrite A, Hh. split; [reflexivity | exact B].
    + pose proof (commit_none _ _ _ _ _ _ _ _ E) as (_ & _ & _ & _ & Hh & _). apply ahist_ext_same; exact Hh. }
  destruct i as [ps ts ref md amd force | id force at_eff rmeta | [a|id] md | [a|id] k | ps ts ref md amd force smd samd];
    [apply Hc | | | | | | script_bullet Hc]; simpl.
  - destruct (find_tx (s_txs s) id) as [x|]; [|apply ahist_ext_refl].
    destruct (t_rev x); [apply ahist_ext_refl|].
    match goal with |- context [match ?c with RCOk => _ | RCInsufficient => _ | RCPanic => _ end] => destruct c end;
      cbn [outcome_state]; try apply ahist_ext_refl; try (apply ahist_ext_same; reflexivity).
    match goal with |- context [commit_transaction ?a ?b ?c ?d ?e ?g ?h] => destruct (commit_transaction a b c d e g h) as [s2 [r|]] eqn:E end; cbn [outcome_state].
    + pose proof (commit_some _ _ _ _ _ _ _ _ _ E) as (_ & _ & _ & _ & _ & _ & _ & _ & _ & _ & _ & _ & _ & _ & Hh & _). apply ahist_ext_same. exact Hh.
    + pose proof (commit_none _ _ _ _ _ _ _ _ E) as (_ & _ & _ & _ & Hh & _). apply ahist_ext_same. exact Hh.
  - unfold ahist_ext, with_accounts. cbn [s_ahist].
    assert (Hd : forall d, @None Z = Some d -> t < d) by (intros d Ed; discriminate Ed).
    exact (upsert_account_ext (f_acc_hist f) now (s_accounts s) (s_ahist s) a md (Some now) None None t Hnow Hd Hd).
  - destruct (find_tx (s_txs s) id) as [x|]; [|apply ahist_ext_refl]. destruct (mcontains (t_meta x) md); simpl; [apply ahist_ext_refl | apply ahist_ext_same; reflexivity].
  - destruct (find_account (s_accounts s) a) as [x|]; simpl; [|apply ahist_ext_refl]. unfold ahist_ext, with_accounts. cbn [s_ahist snd].
    destruct (f_acc_hist f); [eexists; split; [reflexivity | constructor; [cbn; exact Hnow | constructor]] | exists []; rewrite app_nil_r; split; [reflexivity | constructor]].
  - destruct (find_tx (s_txs s) id) as [x|]; [|apply ahist_ext_refl]. destruct (mget (t_meta x) k); simpl; [apply ahist_ext_same; reflexivity | apply ahist_ext_refl].
Qed.

Lemma step_ahist_ext f now s o s' r t : t < now -> step f now s o = SR s' r -> ahist_ext t s s'.
Proof.
  intros Hnow H. unfold step in H.
  destruct (find_ik (s_logs s) (o_ik o)) as [l|].
  - destruct (input_eq_dec (l_input l) (o_in o)); inversion H; subst; apply ahist_ext_refl.
  - pose proof (run_input_ahist_ext f now s (o_in o) t Hnow) as H1.
    destruct (run_input f now s (o_in o)) as [s1 p|s1 e|]; cbn [outcome_state] in *; [| |discriminate].
    + destruct (o_dry o); inversion H; subst; [apply ahist_ext_same; reflexivity|].
      destruct H1 as (ext & A & B). exists ext. cbn [append_log s_ahist]. split; assumption.
    + inversion H; subst. apply ahist_ext_same; reflexivity.
Qed.

Lemma run_from_ahist_ext f t h : forall s, Forall (fun no => t < fst no) h -> ahist_ext t s (run_from f s h).
Proof.
  induction h as [|[now o] r IH]; intros s H; cbn [run_from fold_left]; [apply ahist_ext_refl|].
  inversion H as [|? ? Hn Hr]; subst. cbn [fst snd] in *.
  destruct (step f now s o) as [s' res|] eqn:E; [eapply ahist_ext_trans; [eapply step_ahist_ext; eassumption | apply IH; exact Hr] | apply IH; exact Hr].
Qed.

Lemma run_from_acurs f t h : forall s, Forall (fun no => fst no <= t) h -> f_acc_hist f = true -> ACurS s t -> ACurS (run_from f s h) t.
Proof.
  induction h as [|[now o] r IH]; intros s H Fh HC; cbn [run_from fold_left]; [exact HC|].
  inversion H as [|? ? Hn Hr]; subst. cbn [fst snd] in *.
  destruct (step f now s o) as [s' res|] eqn:E; [apply IH; [exact Hr | exact Fh | eapply step_acurs; eassumption] | apply IH; assumption].
Qed.

(* THE THEOREM for accounts: with ACCOUNT_METADATA_HISTORY = SYNC, what the final state answers for the metadata at time t of an
   account that existed at t is that account's metadata in the state reached at t *)
Theorem account_metadata_as_of f h1 h2 t x :
  f_acc_hist f = true -> Forall (fun no => fst no <= t) h1 -> Forall (fun no => t < fst no) h2 ->
  In x (s_accounts (run f h1)) ->
  ahist_at (s_ahist (run f (h1 ++ h2))) (a_addr x) t = a_meta x.
Proof.
  intros Fh H1 H2 Hx. rewrite run_app.
  assert (HC : ACurS (run f h1) t).
  { unfold run. change (fold_left _ h1 init_state) with (run_from f init_state h1). apply run_from_acurs; [exact H1 | exact Fh | apply acurs_init]. }
  destruct (run_from_ahist_ext f t h2 (run f h1) H2) as (ext & A & B).
  rewrite ahist_at_unfold, A, asel_skip.
  - rewrite <- ahist_at_unfold. apply (ac_cur _ _ _ HC). exact Hx.
  - eapply Forall_impl; [|exact B]. cbn. intros r Hr. right. exact Hr.
Qed.
