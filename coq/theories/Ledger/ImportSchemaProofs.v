(* C11 on ledgers with schemas: the round trip of Ledger/ImportSchema.v over all histories of Ledger/SchemaCtrl.v
   (schema inserts, writes under a known / no schema version, strict or audit enforcement, templates).
   Same technique as Ledger/ImportSim.v: the relation Sim between source and copy, one step of the source (sstep)
   against the import of the log it appended (simp_log, which resolves the schema PER LOG), induction over the history,
   and "Export = the emitted logs in order" by uniqueness of sorted permutations. *)
From Coq Require Import List ZArith String Bool Lia Sorted Permutation.
From LV Require Import Base.Util Ledger.Types Ledger.Core Ledger.Invariants Ledger.ReplayProofs Ledger.Chart Ledger.SchemaCtrl
                       Ledger.Import Ledger.ImportProofs Ledger.ImportSim Ledger.ImportSchema.
Import ListNotations.
Open Scope Z_scope.

(* ---------------------------------------------------------------- UpsertAccounts with chart defaults, on the account view *)
Definition av_upsert_d (l : list aview) (a : addr) (dm md : meta) (ins : Z) : list aview :=
  if av_has l a then map (av_set (fun m => mmerge m md) a) l else l ++ [(a, mmerge dm md, ins)].

Lemma av_upsert_d_nodup l a dm md ins : NoDup (map av_addr l) -> NoDup (map av_addr (av_upsert_d l a dm md ins)).
Proof.
  intros Hnd. unfold av_upsert_d. destruct (av_has l a) eqn:Hh.
  - rewrite av_set_same_addr. exact Hnd.
  - rewrite map_app. simpl. apply nodup_snoc; [exact Hnd | apply av_has_false_notin; exact Hh].
Qed.

Lemma upsert_account_d_av h now accs hist a dm md first ins upd :
  NoDup (map a_addr accs) ->
  map av (fst (upsert_account_d h now (accs, hist) a dm md first ins upd)) = av_upsert_d (map av accs) a dm md (opt_default now ins).
Proof.
  intros Hnd. unfold upsert_account_d, av_upsert_d. cbn [fst]. rewrite find_account_has.
  destruct (find_account accs a) eqn:F; rewrite (upsert_account_av _ _ _ _ _ _ _ _ _ Hnd); unfold av_upsert; rewrite find_account_has, F; reflexivity.
Qed.

Lemma upsert_d_fold_av h now (dflt g : addr -> meta) first ins upd (l : list addr) : forall accs hist,
  NoDup (map a_addr accs) ->
  map av (fst (fold_left (fun st a => upsert_account_d h now st a (dflt a) (g a) first ins upd) l (accs, hist))) =
  fold_left (fun v a => av_upsert_d v a (dflt a) (g a) (opt_default now ins)) l (map av accs).
Proof.
  induction l as [|a r IH]; intros accs hist Hnd; [reflexivity|].
  cbn [fold_left]. destruct (upsert_account_d h now (accs, hist) a (dflt a) (g a) first ins upd) as [accs1 hist1] eqn:U.
  assert (E1 : map av accs1 = av_upsert_d (map av accs) a (dflt a) (g a) (opt_default now ins)).
  { pose proof (upsert_account_d_av h now accs hist a (dflt a) (g a) first ins upd Hnd) as X. rewrite U in X. exact X. }
  rewrite IH.
  - rewrite E1. reflexivity.
  - rewrite <- av_addrs, E1. apply av_upsert_d_nodup. rewrite av_addrs. exact Hnd.
Qed.

Lemma av_d_fold_nodup (dflt g : addr -> meta) ins (l : list addr) : forall v, NoDup (map av_addr v) ->
  NoDup (map av_addr (fold_left (fun v a => av_upsert_d v a (dflt a) (g a) ins) l v)).
Proof. induction l as [|a r IH]; intros v Hnd; [exact Hnd|]. cbn [fold_left]. apply IH. apply av_upsert_d_nodup. exact Hnd. Qed.

(* UpsertAccounts as importLog calls it for SET_METADATA on an account *)
Lemma simp_acc_set_av h d accs hist a dm md :
  NoDup (map a_addr accs) ->
  map av (fst (simp_acc_set h d (accs, hist) a dm md)) = av_upsert_d (map av accs) a dm md d.
Proof. intros Hnd. unfold simp_acc_set. rewrite (upsert_account_d_av _ _ _ _ _ _ _ _ _ _ Hnd). reflexivity. Qed.

Section SProofs.
  Variable re_valid : str -> bool.
  Variable re_match : str -> str -> bool.
  Variable f : features.

  Notation sstep := (sstep re_valid re_match f).
  Notation defaults := (chart_defaults re_valid re_match).

  (* ---------------------------------------------------------------- the operation body with chart defaults *)
  Lemma upsert_tx_accounts_d_frame now s dflt t amd :
    let s' := upsert_tx_accounts_d f now s dflt t amd in
    s_vols s' = s_vols s /\ s_txs s' = s_txs s /\ s_moves s' = s_moves s /\ s_thist s' = s_thist s /\ s_logs s' = s_logs s /\
    s_next_tx s' = s_next_tx s /\ s_next_log s' = s_next_log s /\ s_next_seq s' = s_next_seq s.
  Proof. unfold upsert_tx_accounts_d, with_accounts. cbn. repeat split; reflexivity. Qed.

  Lemma run_input_d_inv now s dflt i : InvT s -> InvT (outcome_state (run_input_d f now s dflt i) s).
  Proof.
    intros HI.
    assert (Hc : forall ps ts ref md amd force, InvT (outcome_state (create_tx_d f now s dflt ps ts ref md amd force) s)).
    { intros ps ts ref md amd force. unfold create_tx_d. destruct ps as [|p ps']; [exact HI|].
      destruct (negb (feasible force (s_vols s) (p :: ps'))); [exact HI|].
      destruct (commit_transaction f now s (p :: ps') md ts ref) as [s1 [t|]] eqn:E; cbn [outcome_state].
      + unfold upsert_tx_accounts_d. apply with_accounts_inv. eapply commit_some_inv; eassumption.
      + eapply commit_none_inv; eassumption. }
    destruct i as [ps ts ref md amd force | id force at_eff rmeta | [a|id] md | [a|id] k | ps ts ref md amd force smd samd];
      try exact (run_input_inv f now s _ HI).
    - apply Hc.
    - cbn [run_input_d outcome_state]. apply with_accounts_inv. exact HI.
    - cbn [run_input_d]. destruct ps as [|p ps']; [exact HI|].
      destruct (negb (feasible force (s_vols s) (p :: ps'))); [exact HI|].
      destruct (script_tx_meta smd md); [apply Hc | exact HI].
  Qed.

  Lemma run_input_d_logs now s dflt i :
    let s' := outcome_state (run_input_d f now s dflt i) s in s_logs s' = s_logs s /\ s_next_log s' = s_next_log s.
  Proof.
    assert (Hc : forall ps ts ref md amd force,
              let s' := outcome_state (create_tx_d f now s dflt ps ts ref md amd force) s in s_logs s' = s_logs s /\ s_next_log s' = s_next_log s).
    { intros ps ts ref md amd force. unfold create_tx_d. destruct ps as [|p ps']; [split; reflexivity|].
      destruct (negb (feasible force (s_vols s) (p :: ps'))); [split; reflexivity|].
      destruct (commit_transaction f now s (p :: ps') md ts ref) as [s1 [t|]] eqn:E; cbn [outcome_state].
      + destruct (upsert_tx_accounts_d_frame now s1 dflt t amd) as (_ & _ & _ & _ & E1 & _ & E2 & _). rewrite E1, E2. eapply commit_logs; eassumption.
      + eapply commit_logs; eassumption. }
    destruct i as [ps ts ref md amd force | id force at_eff rmeta | [a|id] md | [a|id] k | ps ts ref md amd force smd samd];
      try exact (run_input_logs f now s _).
    - apply Hc.
    - cbn. split; reflexivity.
    - cbn [run_input_d]. destruct ps as [|p ps']; [split; reflexivity|].
      destruct (negb (feasible force (s_vols s) (p :: ps'))); [split; reflexivity|].
      destruct (script_tx_meta smd md); [apply Hc | split; reflexivity].
  Qed.

  Lemma run_input_d_next_mono now s dflt i : s_next_tx s <= s_next_tx (outcome_state (run_input_d f now s dflt i) s).
  Proof.
    assert (Hc : forall ps ts ref md amd force, s_next_tx s <= s_next_tx (outcome_state (create_tx_d f now s dflt ps ts ref md amd force) s)).
    { intros ps ts ref md amd force. unfold create_tx_d. destruct ps as [|p ps']; [apply Z.le_refl|].
      destruct (negb (feasible force (s_vols s) (p :: ps'))); [apply Z.le_refl|].
      destruct (commit_transaction f now s (p :: ps') md ts ref) as [s1 [t|]] eqn:E; cbn [outcome_state].
      + destruct (upsert_tx_accounts_d_frame now s1 dflt t amd) as (_ & _ & _ & _ & _ & E1 & _). rewrite E1. eapply commit_next_mono; eassumption.
      + eapply commit_next_mono; eassumption. }
    destruct i as [ps ts ref md amd force | id force at_eff rmeta | [a|id] md | [a|id] k | ps ts ref md amd force smd samd];
      try exact (run_input_next_mono f now s _).
    - apply Hc.
    - cbn. apply Z.le_refl.
    - cbn [run_input_d]. destruct ps as [|p ps']; [apply Z.le_refl|].
      destruct (negb (feasible force (s_vols s) (p :: ps'))); [apply Z.le_refl|].
      destruct (script_tx_meta smd md); [apply Hc | apply Z.le_refl].
  Qed.
  (* ---------------------------------------------------------------- invariants of the base state along sstep *)
  Lemma bump_log_inv s : Inv s -> Inv (bump_log s).
  Proof.
    intros [[Hv Hi Hs Hr Hn] [Hl Hls Hnl]]. split; constructor; unfold bump_log, all_postings in *; cbn; try assumption; try lia.
    eapply Forall_lt_weaken; [|exact Hl]. lia.
  Qed.

  Lemma step_found_identity now s o l s' r : find_ik (s_logs s) (o_ik o) = Some l -> step f now s o = SR s' r -> s' = s.
  Proof. unfold step. intros F. rewrite F. destruct (input_eq_dec (l_input l) (o_in o)); intros E; inversion E; reflexivity. Qed.

  Lemma step_found_not_panic now s o l : find_ik (s_logs s) (o_ik o) = Some l -> step f now s o <> SPanic.
  Proof. unfold step. intros F. rewrite F. destruct (input_eq_dec (l_input l) (o_in o)); discriminate. Qed.

  (* what one sstep does, in the vocabulary of the export: nothing, one write log (with the schema the lookup resolved and
     the body run with its defaults), or one INSERTED_SCHEMA log *)
  Inductive seffect (m : mode) (now : Z) (ss ss' : sstate) : Prop :=
  | EffNone : tables (ss_base ss') = tables (ss_base ss) -> ss_schemas ss' = ss_schemas ss -> ss_slogs ss' = ss_slogs ss ->
              ss_logver ss' = ss_logver ss -> s_next_log (ss_base ss) <= s_next_log (ss_base ss') -> s_next_tx (ss_base ss) <= s_next_tx (ss_base ss') ->
              seffect m now ss ss'
  | EffWrite (v template : str) (o : op) (sc : option schema_row) (inp : input) (s1 : state) (p : payload) :
              find_ik (s_logs (ss_base ss)) (o_ik o) = None ->
              resolve ss v = Some sc ->
              run_input_d f now (ss_base ss) (defaults sc) inp = Done s1 p ->
              ss' = {| ss_base := append_log s1 {| l_id := s_next_log s1; l_payload := p; l_date := now; l_ik := o_ik o; l_input := o_in o |};
                       ss_schemas := ss_schemas ss; ss_slogs := ss_slogs ss; ss_logver := ss_logver ss ++ [(s_next_log s1, (v, template))] |} ->
              seffect m now ss ss'
  | EffSchema (v : str) (c : chart) (tpls : list (str * list posting)) :
              find_schema (ss_schemas ss) v = None ->
              ss' = {| ss_base := bump_log (ss_base ss);
                       ss_schemas := ss_schemas ss ++ [{| sc_version := v; sc_chart := c; sc_templates := tpls; sc_created := now |}];
                       ss_slogs := ss_slogs ss ++ [(s_next_log (ss_base ss), now, v)]; ss_logver := ss_logver ss |} ->
              seffect m now ss ss'.
  Lemma eff_same m now ss : seffect m now ss ss.
  Proof. apply EffNone; try reflexivity; apply Z.le_refl. Qed.

  Lemma eff_only_sequences m now ss s1 :
    s_next_log (ss_base ss) <= s_next_log s1 -> s_next_tx (ss_base ss) <= s_next_tx s1 ->
    seffect m now ss (with_base ss (only_sequences (ss_base ss) s1)).
  Proof. intros H1 H2. apply EffNone; try reflexivity; assumption. Qed.

  Lemma sstep_effect m now ss i ss' r : sstep m now ss i = SSR ss' r -> seffect m now ss ss'.
  Proof.
    unfold SchemaCtrl.sstep, fail. destruct i as [v c tpls | v template o].
    - destruct (find_schema (ss_schemas ss) v) eqn:F; intros E; inversion E; subst; [apply eff_same|].
      eapply EffSchema; [exact F | reflexivity].
    - destruct (find_ik (s_logs (ss_base ss)) (o_ik o)) as [l|] eqn:FI.
      + destruct (negb (String.eqb (log_template ss (l_id l)) template)); [intros E; inversion E; subst; apply eff_same|].
        destruct (step f now (ss_base ss) o) as [s' r0|] eqn:St; [|discriminate].
        pose proof (step_found_identity now _ o l s' r0 FI St) as ->.
        destruct r0; intros E; inversion E; subst; destruct ss; apply eff_same.
      + set (lookup := if String.eqb v "" then _ else _).
        assert (HL : match lookup with inl sc => resolve ss v = Some sc | inr _ => True end).
        { subst lookup. unfold resolve. destruct (String.eqb v "").
          - destruct (latest_schema (ss_schemas ss)); [destruct m|]; exact I || reflexivity.
          - destruct (find_schema (ss_schemas ss) v); [reflexivity | exact I]. }
        destruct lookup as [sc|e]; [|intros E; inversion E; subst; apply eff_same].
        destruct (resolve_template m sc template (o_in o)) as [inp|]; [|intros E; inversion E; subst; apply eff_same].
        pose proof (run_input_d_logs now (ss_base ss) (defaults sc) inp) as [HL1 HL2].
        pose proof (run_input_d_next_mono now (ss_base ss) (defaults sc) inp) as HM.
        destruct (run_input_d f now (ss_base ss) (defaults sc) inp) as [s1 p|s1 e1|] eqn:R; cbn [outcome_state] in *; [| |discriminate].
        * destruct (negb (match sc with Some r0 => payload_valid re_valid re_match r0 p | None => true end) && match m with Strict => true | Audit => false end).
          { intros E; inversion E; subst. apply eff_only_sequences; [rewrite HL2; apply Z.le_refl | exact HM]. }
          destruct (o_dry o).
          { intros E; inversion E; subst. apply eff_only_sequences; cbn; [rewrite HL2; lia | exact HM]. }
          intros E; inversion E; subst. eapply EffWrite; [exact FI | exact HL | exact R | reflexivity].
        * intros E; inversion E; subst. apply eff_only_sequences; [rewrite HL2; apply Z.le_refl | exact HM].
  Qed.
  (* ---------------------------------------------------------------- the payload a successful body returns *)
  Lemma done_payload_shape now s i s1 p : run_input f now s i = Done s1 p ->
    match i with
    | ICreate _ _ _ _ _ _ => exists t amd, p = PNewTx t amd
    | IRevert _ _ _ _ => exists orig r, p = PRevert orig r
    | ISetMeta t md => p = PSetMeta t md
    | IDelMeta t k => p = PDelMeta t k
    | IScript _ _ _ _ _ _ _ _ => exists t amd, p = PNewTx t amd
    end.
  Proof.
    script_split i.
    { simpl. unfold create_tx. destruct ps as [|q ps']; [discriminate|]. destruct (feasible force (s_vols s) (q :: ps')); simpl; [|discriminate].
      destruct (commit_transaction f now s (q :: ps') md ts ref) as [s0 [t|]]; [|discriminate]. intros E; inversion E. eauto. }
    destruct i as [ps ts ref md amd force | id force at_eff rmeta | [a|id] md | [a|id] k | ps ts ref md amd force smd samd];
      [apply Hc | | | | | | script_bullet Hc]; simpl.
    - destruct (find_tx (s_txs s) id) as [t|]; [|discriminate]. destruct (t_rev t); [discriminate|].
      match goal with |- context [match ?chk with RCOk => _ | RCInsufficient => _ | RCPanic => _ end] => destruct chk end; try discriminate.
      match goal with |- context [commit_transaction ?a ?b ?c0 ?d ?e ?g ?h] => destruct (commit_transaction a b c0 d e g h) as [s2 [r|]] end; [|discriminate].
      intros E; inversion E. eauto.
    - intros E; inversion E; reflexivity.
    - destruct (find_tx (s_txs s) id) as [t|]; [|discriminate]. destruct (mcontains (t_meta t) md); intros E; inversion E; reflexivity.
    - destruct (find_account (s_accounts s) a); intros E; inversion E; reflexivity.
    - destruct (find_tx (s_txs s) id) as [t|]; [|discriminate]. destruct (mget (t_meta t) k); [|discriminate]. intros E; inversion E; reflexivity.
  Qed.

  (* ---------------------------------------------------------------- the relation between source and copy *)
  Record SSim (ss c : sstate) : Prop := {
    ssim_base : Sim f false false (ss_base ss) (ss_base c);
    ssim_schemas : ss_schemas c = ss_schemas ss;
    ssim_slogs : ss_slogs c = ss_slogs ss;
    ssim_logver : ss_logver c = ss_logver ss
  }.

  Lemma ssim_init : SSim sinit sinit.
  Proof. constructor; try reflexivity. apply sim_init. Qed.

  Lemma resolve_ext ss c v : ss_schemas c = ss_schemas ss -> resolve c v = resolve ss v.
  Proof. intros E. unfold resolve. rewrite E. reflexivity. Qed.

  Lemma sim_tables s s' c : tables s' = tables s -> Sim f false false s c -> Sim f false false s' c.
  Proof.
    unfold tables. intros E [Hv Ht Hh Hl Hm Ha Hav Hnd]. inversion E as [[E1 E2 E3 E4 E5 E6 E7]].
    constructor; try (intros D; discriminate D); congruence.
  Qed.

  Lemma upsert_tx_accounts_d_sim now now' s c dflt t amd :
    Sim f false false s c ->
    Sim f false false (upsert_tx_accounts_d f now s dflt t amd) (upsert_tx_accounts_d f now' c dflt t amd).
  Proof.
    intros S. pose proof S as [Hv Ht Hh Hl Hm Ha Hav Hnd]. unfold upsert_tx_accounts_d.
    destruct (fold_left (fun st a => upsert_account_d (f_acc_hist f) now st a (dflt a) (amd_get amd a) (Some (t_ts t)) (Some (t_ins t)) (Some (t_ins t)))
                        (involved_accounts (t_postings t) amd) (s_accounts s, s_ahist s)) as [sa sh] eqn:Fs.
    destruct (fold_left (fun st a => upsert_account_d (f_acc_hist f) now' st a (dflt a) (amd_get amd a) (Some (t_ts t)) (Some (t_ins t)) (Some (t_ins t)))
                        (involved_accounts (t_postings t) amd) (s_accounts c, s_ahist c)) as [ca ch] eqn:Fc.
    apply sim_accounts_change; [exact S | |].
    - pose proof (upsert_d_fold_av (f_acc_hist f) now' dflt (amd_get amd) (Some (t_ts t)) (Some (t_ins t)) (Some (t_ins t)) (involved_accounts (t_postings t) amd) (s_accounts c) (s_ahist c) (nodup_copy _ _ Hav Hnd)) as X.
      pose proof (upsert_d_fold_av (f_acc_hist f) now dflt (amd_get amd) (Some (t_ts t)) (Some (t_ins t)) (Some (t_ins t)) (involved_accounts (t_postings t) amd) (s_accounts s) (s_ahist s) Hnd) as Y.
      rewrite Fc in X. rewrite Fs in Y. cbn [fst opt_default] in X, Y. rewrite X, Y, Hav. reflexivity.
    - pose proof (upsert_d_fold_av (f_acc_hist f) now dflt (amd_get amd) (Some (t_ts t)) (Some (t_ins t)) (Some (t_ins t)) (involved_accounts (t_postings t) amd) (s_accounts s) (s_ahist s) Hnd) as Y.
      rewrite Fs in Y. cbn [fst] in Y. rewrite <- av_addrs, Y. apply av_d_fold_nodup. rewrite av_addrs. exact Hnd.
  Qed.

  (* one operation body under the schema the lookup resolved vs. importLog's replay of its payload with the schema it
     resolves from the log's version *)
  Lemma run_input_d_sim now nowi ss c v sc i s1 p :
    InvT (ss_base ss) -> SSim ss c -> resolve ss v = Some sc ->
    run_input_d f now (ss_base ss) (defaults sc) i = Done s1 p ->
    exists c1, simp_payload re_valid re_match f nowi c now v p = inl c1 /\ Sim f false false s1 c1.
  Proof.
    intros HI [S Es _ _] Hr.
    assert (Hc : forall ps ts ref md amd force,
              create_tx_d f now (ss_base ss) (defaults sc) ps ts ref md amd force = Done s1 p ->
              exists c1, simp_payload re_valid re_match f nowi c now v p = inl c1 /\ Sim f false false s1 c1).
    { intros ps ts ref md amd force. unfold create_tx_d. destruct ps as [|q ps']; [discriminate|].
      destruct (negb (feasible force (s_vols (ss_base ss)) (q :: ps'))); [discriminate|].
      destruct (commit_transaction f now (ss_base ss) (q :: ps') md ts ref) as [s0 [t|]] eqn:E; [|discriminate].
      intros X; inversion X; subst; clear X. cbn [simp_payload]. rewrite (resolve_ext ss c v Es), Hr.
      destruct (imp_commit_sim f false false now _ _ _ _ _ _ _ _ HI S E) as (c1 & t' & Ec & S1 & _). rewrite Ec.
      eexists. split; [reflexivity|]. apply upsert_tx_accounts_d_sim. exact S1. }
    destruct i as [ps ts ref md amd force | id force at_eff rmeta | [a|id] md | [a|id] k | ps ts ref md amd force smd samd].
    7: { (* script create: the payload is the one of the plain create of the merged metadata *)
      cbn [run_input_d]. destruct ps as [|q ps']; [discriminate|].
      destruct (negb (feasible force (s_vols (ss_base ss)) (q :: ps'))); [discriminate|].
      destruct (script_tx_meta smd md); [apply Hc | discriminate]. }
    - apply Hc.
    - cbn [run_input_d]. intros R. destruct (done_payload_shape _ _ _ _ _ R) as (orig & r & ->).
      destruct (run_input_sim f false false now nowi _ _ _ _ _ HI S (fun D => match Bool.diff_false_true D with end) R) as (c1 & Ep & S1).
      exists c1. split; [|exact S1]. cbn [simp_payload]. rewrite Ep. reflexivity.
    - cbn [run_input_d]. intros X; inversion X; subst; clear X. cbn [simp_payload]. rewrite (resolve_ext ss c v Es), Hr.
      eexists. split; [reflexivity|]. pose proof S as [Hv Ht Hh Hl Hm Ha Hav Hnd].
      destruct (upsert_account_d (f_acc_hist f) now (s_accounts (ss_base ss), s_ahist (ss_base ss)) a (defaults sc a) md (Some now) None None) as [sa sh] eqn:Fs.
      destruct (simp_acc_set (f_acc_hist f) now (s_accounts (ss_base c), s_ahist (ss_base c)) a (defaults sc a) md) as [ca ch] eqn:Fc.
      apply sim_accounts_change; [exact S | |].
      + pose proof (simp_acc_set_av (f_acc_hist f) now _ (s_ahist (ss_base c)) a (defaults sc a) md (nodup_copy _ _ Hav Hnd)) as X.
        pose proof (upsert_account_d_av (f_acc_hist f) now _ (s_ahist (ss_base ss)) a (defaults sc a) md (Some now) None None Hnd) as Y.
        rewrite Fc in X. rewrite Fs in Y. cbn [fst opt_default] in X, Y. rewrite X, Y, Hav. reflexivity.
      + pose proof (upsert_account_d_av (f_acc_hist f) now _ (s_ahist (ss_base ss)) a (defaults sc a) md (Some now) None None Hnd) as Y.
        rewrite Fs in Y. cbn [fst] in Y. rewrite <- av_addrs, Y. apply av_upsert_d_nodup. rewrite av_addrs. exact Hnd.
    - cbn [run_input_d]. intros R. pose proof (done_payload_shape _ _ _ _ _ R) as ->.
      destruct (run_input_sim f false false now nowi _ _ _ _ _ HI S (fun D => match Bool.diff_false_true D with end) R) as (c1 & Ep & S1).
      exists c1. split; [|exact S1]. cbn [simp_payload]. rewrite Ep. reflexivity.
    - cbn [run_input_d]. intros R. pose proof (done_payload_shape _ _ _ _ _ R) as ->.
      destruct (run_input_sim f false false now nowi _ _ _ _ _ HI S (fun D => match Bool.diff_false_true D with end) R) as (c1 & Ep & S1).
      exists c1. split; [|exact S1]. cbn [simp_payload]. rewrite Ep. reflexivity.
    - cbn [run_input_d]. intros R. pose proof (done_payload_shape _ _ _ _ _ R) as ->.
      destruct (run_input_sim f false false now nowi _ _ _ _ _ HI S (fun D => match Bool.diff_false_true D with end) R) as (c1 & Ep & S1).
      exists c1. split; [|exact S1]. cbn [simp_payload]. rewrite Ep. reflexivity.
  Qed.
  (* ---------------------------------------------------------------- effects keep the invariants and the relation *)
  Lemma tables_inv s s' : tables s' = tables s -> s_next_tx s <= s_next_tx s' -> s_next_log s <= s_next_log s' -> Inv s -> Inv s'.
  Proof.
    unfold tables. intros E H1 H2 [[Hv Hi Hs Hr Hn] [Hl Hls Hnl]]. inversion E as [[E1 E2 E3 E4 E5 E6 E7]].
    split; constructor; unfold all_postings in *; rewrite ?E1, ?E2, ?E7; try assumption; try lia.
    - eapply Forall_lt_weaken; eassumption.
    - eapply Forall_lt_weaken; eassumption.
  Qed.

  Lemma effect_inv m now ss ss' : seffect m now ss ss' -> Inv (ss_base ss) -> Inv (ss_base ss').
  Proof.
    intros [T _ _ _ H1 H2 | v template o sc inp s1 p FI Hr R -> | v c tpls F ->] HI.
    - eapply tables_inv; eassumption.
    - destruct HI as [HT HL]. cbn [ss_base].
      pose proof (run_input_d_inv now (ss_base ss) (defaults sc) inp HT) as HT1. rewrite R in HT1. cbn [outcome_state] in HT1.
      pose proof (run_input_d_logs now (ss_base ss) (defaults sc) inp) as [HL1 HL2]. rewrite R in HL1, HL2. cbn [outcome_state] in HL1, HL2.
      assert (HLs1 : InvL s1) by (eapply invL_transport; eassumption).
      split; [apply append_log_invT; exact HT1 | apply append_log_invL; [exact HLs1 | reflexivity]].
    - cbn [ss_base]. apply bump_log_inv. exact HI.
  Qed.

  Lemma eff_none_sim ss ss' c :
    tables (ss_base ss') = tables (ss_base ss) -> ss_schemas ss' = ss_schemas ss -> ss_slogs ss' = ss_slogs ss -> ss_logver ss' = ss_logver ss ->
    SSim ss c -> SSim ss' c.
  Proof. intros T E1 E2 E3 [S A B0 C]. constructor; [eapply sim_tables; eassumption | congruence | congruence | congruence]. Qed.

  Lemma eff_write_sim now nowi ss c v template o sc inp s1 p :
    InvT (ss_base ss) -> SSim ss c ->
    find_ik (s_logs (ss_base ss)) (o_ik o) = None -> resolve ss v = Some sc ->
    run_input_d f now (ss_base ss) (defaults sc) inp = Done s1 p ->
    let l := {| l_id := s_next_log s1; l_payload := p; l_date := now; l_ik := o_ik o; l_input := o_in o |} in
    exists c', simp_log re_valid re_match f nowi c (SLWrite l (v, template)) = inl c' /\
      SSim {| ss_base := append_log s1 l; ss_schemas := ss_schemas ss; ss_slogs := ss_slogs ss; ss_logver := ss_logver ss ++ [(s_next_log s1, (v, template))] |} c'.
  Proof.
    intros HI SS FI Hr R l.
    destruct (run_input_d_sim now nowi ss c v sc inp s1 p HI SS Hr R) as (c1 & Ep & S1).
    pose proof (run_input_d_logs now (ss_base ss) (defaults sc) inp) as [HL1 _]. rewrite R in HL1. cbn [outcome_state] in HL1.
    destruct SS as [S A B0 C].
    subst l. unfold simp_log. cbn [l_date l_payload l_ik fst]. rewrite Ep, (sim_logs _ _ _ _ _ S1), HL1, (ik_free _ _ FI).
    eexists. split; [reflexivity|]. constructor; cbn [ss_base ss_schemas ss_slogs ss_logver]; [apply append_log_sim; exact S1 | exact A | exact B0 | rewrite C; reflexivity].
  Qed.

  Lemma eff_schema_sim nowi ss c e row :
    SSim ss c -> find_schema (ss_schemas ss) (sc_version row) = None ->
    exists c', simp_log re_valid re_match f nowi c (SLSchema e row) = inl c' /\
      forall b, tables b = tables (ss_base ss) ->
      SSim {| ss_base := b; ss_schemas := ss_schemas ss ++ [row]; ss_slogs := ss_slogs ss ++ [e]; ss_logver := ss_logver ss |} c'.
  Proof.
    intros [S A B0 C] F. unfold simp_log. rewrite A, F. eexists. split; [reflexivity|].
    intros b T. constructor; cbn [ss_base ss_schemas ss_slogs ss_logver]; [eapply sim_tables; eassumption | try rewrite A; reflexivity | rewrite B0; reflexivity | exact C].
  Qed.

  (* ---------------------------------------------------------------- importing a list of stream elements *)
  Fixpoint simp_logs (nowi : Z) (c : sstate) (es : list slog) : sstate + serr_imp :=
    match es with
    | [] => inl c
    | e :: r => match simp_log re_valid re_match f nowi c e with inl c' => simp_logs nowi c' r | inr x => inr x end
    end.

  Lemma simp_logs_app nowi es : forall c es' c', simp_logs nowi c es = inl c' -> simp_logs nowi c (es ++ es') = simp_logs nowi c' es'.
  Proof.
    induction es as [|e r IH]; intros c es' c' E; simpl in *; [inversion E; reflexivity|].
    destruct (simp_log re_valid re_match f nowi c e); [apply IH; exact E | discriminate].
  Qed.

  Lemma simp_loop_sorted nowi es : forall last c c',
    StronglySorted Z.lt (map slog_id es) -> (forall x, last = Some x -> Forall (fun e => x < slog_id e) es) ->
    simp_logs nowi c es = inl c' -> simp_loop re_valid re_match f nowi last c es = (c', None).
  Proof.
    induction es as [|e r IH]; intros last c c' Hs Hl E; simpl in *; [inversion E; reflexivity|].
    apply StronglySorted_inv in Hs. destruct Hs as [Hs Hr].
    assert (Hchk : match last with Some x => slog_id e <=? x | None => false end = false).
    { destruct last as [x|]; [|reflexivity]. specialize (Hl x eq_refl). inversion Hl; subst. apply Z.leb_gt. assumption. }
    rewrite Hchk. destruct (simp_log re_valid re_match f nowi c e) as [c1|x]; [|discriminate].
    apply IH; [exact Hs | | exact E]. intros x Ex. inversion Ex; subst. rewrite Forall_map in Hr. exact Hr.
  Qed.

  (* ---------------------------------------------------------------- Export = the emitted elements in order *)
  Definition le_id (x y : slog) : Prop := slog_id x <= slog_id y.
  Definition lt_id (x y : slog) : Prop := slog_id x < slog_id y.

  Lemma ins_perm e l : Permutation (ins_slog e l) (e :: l).
  Proof.
    induction l as [|x r IH]; simpl; [apply Permutation_refl|].
    destruct (slog_id e <? slog_id x); [apply Permutation_refl|].
    eapply Permutation_trans; [apply perm_skip; exact IH | apply perm_swap].
  Qed.

  Lemma sort_perm l : Permutation (sort_slogs l) l.
  Proof.
    induction l as [|a r IH]; [apply Permutation_refl|]. unfold sort_slogs in *. simpl.
    eapply Permutation_trans; [apply ins_perm | apply perm_skip; exact IH].
  Qed.

  Lemma ins_sorted e l : StronglySorted le_id l -> StronglySorted le_id (ins_slog e l).
  Proof.
    induction l as [|x r IH]; intros Hs; simpl; [constructor; constructor|].
    apply StronglySorted_inv in Hs. destruct Hs as [Hs Hx].
    destruct (Z.ltb_spec (slog_id e) (slog_id x)).
    - constructor; [constructor; assumption|]. constructor; [unfold le_id; lia|].
      eapply Forall_impl; [|exact Hx]. unfold le_id. intros; lia.
    - constructor; [apply IH; exact Hs|].
      eapply Permutation_Forall; [apply Permutation_sym; apply ins_perm|]. constructor; [unfold le_id; lia | exact Hx].
  Qed.

  Lemma sort_sorted l : StronglySorted le_id (sort_slogs l).
  Proof. induction l as [|a r IH]; [constructor|]. unfold sort_slogs in *. simpl. apply ins_sorted. exact IH. Qed.

  Lemma sorted_perm_unique (l1 : list slog) : forall l2,
    StronglySorted le_id l1 -> StronglySorted lt_id l2 -> Permutation l1 l2 -> l1 = l2.
  Proof.
    induction l1 as [|a r1 IH]; intros l2 H1 H2 P.
    - apply Permutation_nil in P. symmetry. exact P.
    - destruct l2 as [|b r2]; [apply Permutation_sym, Permutation_nil in P; discriminate|].
      apply StronglySorted_inv in H1. destruct H1 as [H1 Ha]. apply StronglySorted_inv in H2. destruct H2 as [H2 Hb].
      rewrite Forall_forall in Ha, Hb.
      assert (Hab : slog_id a <= slog_id b).
      { assert (Hin : In b (a :: r1)) by (eapply Permutation_in; [apply Permutation_sym; exact P | left; reflexivity]).
        destruct Hin as [->|Hin]; [lia | exact (Ha b Hin)]. }
      assert (E : a = b).
      { assert (Hin : In a (b :: r2)) by (eapply Permutation_in; [exact P | left; reflexivity]).
        destruct Hin as [->|Hin]; [reflexivity|]. specialize (Hb a Hin). unfold lt_id in Hb. lia. }
      subst b. f_equal. apply IH; [exact H1 | exact H2 | eapply Permutation_cons_inv; exact P].
  Qed.

  Lemma lt_id_sorted (tr : list slog) : StronglySorted Z.lt (map slog_id tr) -> StronglySorted lt_id tr.
  Proof.
    induction tr as [|a r IH]; intros Hs; [constructor|]. simpl in Hs. apply StronglySorted_inv in Hs. destruct Hs as [Hs Ha].
    constructor; [apply IH; exact Hs|]. rewrite Forall_map in Ha. exact Ha.
  Qed.

  Lemma export_is_trace ss tr : Permutation (selems ss) tr -> StronglySorted Z.lt (map slog_id tr) -> simp_export ss = tr.
  Proof.
    intros P Hs. unfold simp_export. apply sorted_perm_unique; [apply sort_sorted | apply lt_id_sorted; exact Hs|].
    eapply Permutation_trans; [apply sort_perm | exact P].
  Qed.

  Lemma combine_snoc {A B} (l : list A) : forall (l' : list B) x y, List.length l = List.length l' ->
    combine (l ++ [x])%list (l' ++ [y])%list = (combine l l' ++ [(x, y)])%list.
  Proof.
    induction l as [|a r IH]; intros [|b r'] x y E; try discriminate; [reflexivity|]. simpl. rewrite IH; [reflexivity|]. simpl in E. lia.
  Qed.
  (* ---------------------------------------------------------------- the round trip over all histories *)
  Notation srun := (srun re_valid re_match f).
  Definition lock (ss : sstate) : Prop :=
    List.length (ss_logver ss) = List.length (s_logs (ss_base ss)) /\ List.length (ss_slogs ss) = List.length (ss_schemas ss).

  Lemma srun_snoc m h n i : srun m (h ++ [(n, i)])%list = match sstep m n (srun m h) i with SSR ss' _ => ss' | SSPanic => srun m h end.
  Proof. unfold ImportSchema.srun. rewrite fold_left_app. reflexivity. Qed.

  Lemma selems_ext ss ss' : s_logs (ss_base ss') = s_logs (ss_base ss) -> ss_logver ss' = ss_logver ss -> ss_slogs ss' = ss_slogs ss ->
    ss_schemas ss' = ss_schemas ss -> selems ss' = selems ss.
  Proof. intros E1 E2 E3 E4. unfold selems. rewrite E1, E2, E3, E4. reflexivity. Qed.

  Lemma perm_snoc_middle {A} (a b : list A) e : Permutation ((a ++ [e]) ++ b)%list ((a ++ b) ++ [e])%list.
  Proof. rewrite <- !app_assoc. apply Permutation_app_head. apply Permutation_app_comm. Qed.

  Theorem srun_invariant m nowi h :
    let ss := srun m h in
    exists tr c, Permutation (selems ss) tr /\ StronglySorted Z.lt (map slog_id tr) /\
                 Forall (fun e => slog_id e < s_next_log (ss_base ss)) tr /\ lock ss /\
                 simp_logs nowi sinit tr = inl c /\ SSim ss c /\ Inv (ss_base ss).
  Proof.
    induction h as [|[n i] h IH] using rev_ind.
    - exists [], sinit. cbn. repeat split; try constructor; try reflexivity; try apply sim_init; try exact (proj1 inv_init); try exact (proj2 inv_init).
    - cbn zeta in *. destruct IH as (tr & c & P & Hs & Hb & [Lk1 Lk2] & El & SS & HI). rewrite srun_snoc.
      destruct (sstep m n (srun m h) i) as [ss' r|] eqn:St; [|exists tr, c; split; [exact P|]; split; [exact Hs|]; split; [exact Hb|]; split; [split; assumption|]; split; [exact El|]; split; assumption].
      pose proof (sstep_effect m n _ i ss' r St) as Eff. pose proof (effect_inv m n _ ss' Eff HI) as HI'.
      destruct Eff as [T E1 E2 E3 H1 H2 | v template o sc inp s1 p FI Hr R -> | v ch tpls F ->].
      + assert (Elogs : s_logs (ss_base ss') = s_logs (ss_base (srun m h))) by (unfold tables in T; inversion T; reflexivity).
        exists tr, c. rewrite (selems_ext _ _ Elogs E3 E2 E1). split; [exact P|]. split; [exact Hs|]. split.
        { eapply Forall_impl; [|exact Hb]. cbn. intros; lia. }
        split; [split; [rewrite E3, Elogs; exact Lk1 | rewrite E2, E1; exact Lk2]|].
        split; [exact El|]. split; [eapply eff_none_sim; eassumption | exact HI'].
      + pose proof (run_input_d_logs n (ss_base (srun m h)) (defaults sc) inp) as [HL1 HL2]. rewrite R in HL1, HL2. cbn [outcome_state] in HL1, HL2.
        set (l := {| l_id := s_next_log s1; l_payload := p; l_date := n; l_ik := o_ik o; l_input := o_in o |}) in *.
        destruct (eff_write_sim n nowi _ c v template o sc inp s1 p (proj1 HI) SS FI Hr R) as (c' & Ec & SS').
        exists (tr ++ [SLWrite l (v, template)])%list, c'. split.
        { unfold selems. cbn [ss_base ss_logver ss_slogs ss_schemas append_log s_logs]. rewrite HL1, map_app. cbn [map snd].
          rewrite combine_snoc by (rewrite map_length; symmetry; exact Lk1). rewrite map_app. cbn [map fst snd].
          eapply Permutation_trans; [apply perm_snoc_middle|]. apply Permutation_app_tail. exact P. }
        split.
        { rewrite map_app. cbn [map slog_id]. unfold l. cbn [l_id]. apply sorted_snoc; [exact Hs|]. rewrite HL2. rewrite Forall_map. exact Hb. }
        split.
        { cbn [ss_base append_log s_next_log]. apply Forall_app. split.
          - eapply Forall_impl; [|exact Hb]. cbn. intros; lia.
          - constructor; [cbn; lia | constructor]. }
        split.
        { split; cbn [ss_base ss_logver ss_slogs ss_schemas append_log s_logs]; [rewrite !app_length, HL1, Lk1; reflexivity | exact Lk2]. }
        split; [rewrite (simp_logs_app nowi tr sinit _ c El); cbn [simp_logs]; unfold l; rewrite Ec; reflexivity|].
        split; [exact SS' | exact HI'].
      + set (row := {| sc_version := v; sc_chart := ch; sc_templates := tpls; sc_created := n |}) in *.
        set (e0 := (s_next_log (ss_base (srun m h)), n, v)) in *.
        destruct (eff_schema_sim nowi _ c e0 row SS F) as (c' & Ec & SS').
        exists (tr ++ [SLSchema e0 row])%list, c'. split.
        { unfold selems. cbn [ss_base ss_logver ss_slogs ss_schemas bump_log s_logs].
          rewrite combine_snoc by exact Lk2. rewrite map_app. cbn [map fst snd]. rewrite app_assoc. apply Permutation_app_tail. exact P. }
        split.
        { rewrite map_app. cbn [map slog_id fst]. apply sorted_snoc; [exact Hs|]. rewrite Forall_map. exact Hb. }
        split.
        { cbn [ss_base bump_log s_next_log]. apply Forall_app. split.
          - eapply Forall_impl; [|exact Hb]. cbn. intros; lia.
          - constructor; [cbn; lia | constructor]. }
        split.
        { split; cbn [ss_base ss_logver ss_slogs ss_schemas bump_log s_logs]; [exact Lk1 | rewrite !app_length, Lk2; reflexivity]. }
        split; [rewrite (simp_logs_app nowi tr sinit _ c El); cbn [simp_logs]; rewrite Ec; reflexivity|].
        split; [apply SS'; reflexivity | exact HI'].
  Qed.

  (* Export then Import into the pristine ledger, for every enforcement mode, history and import time: accepted, and the
     copy is related to the source by SSim (schemas, INSERTED_SCHEMA logs, log versions identical; base tables by Sim) *)
  Theorem simp_roundtrip m h nowi :
    exists b, sroundtrip re_valid re_match f m h nowi = (srun m h, b, None) /\ SSim (srun m h) b.
  Proof.
    destruct (srun_invariant m nowi h) as (tr & c & P & Hs & _ & _ & El & SS & _).
    exists c. split; [|exact SS]. unfold sroundtrip, simp_import. rewrite (export_is_trace _ tr P Hs).
    change (slast_log_id sinit) with (@None Z).
    rewrite (simp_loop_sorted nowi tr None sinit c Hs (fun x D => match D with end) El). reflexivity.
  Qed.
End SProofs.
