(* Schema enforcement layered on Ledger/Core.v: mirror of log_process.go:runLog (schema lookup, strict / audit),
   controller_default.go:createTransaction (template rules, chart default metadata through UpsertAccounts),
   saveAccountMetadata, insertSchema and CreatedTransaction.ValidateWithSchema.
   One SQL transaction per operation, exactly as in Core.step: an error keeps the tables and only advances sequences.
   A transaction template is modelled by the postings its script denotes (the harness uses variable-free scripts). *)
From Coq Require Import List ZArith String Bool.
From LV Require Import Base.Util Ledger.Types Ledger.Core Ledger.Chart.
Import ListNotations.
Open Scope Z_scope.

Inductive mode := Strict | Audit.

Record schema_row := { sc_version : str; sc_chart : chart; sc_templates : list (str * list posting); sc_created : Z }.

Record sstate := {
  ss_base : state;
  ss_schemas : list schema_row;               (* schemas table, insertion order *)
  ss_slogs : list (Z * Z * str);              (* INSERTED_SCHEMA logs: id, date, version *)
  ss_logver : list (Z * (str * str))          (* the other logs: logs.schema_version, and the template the input named
                                                 (Script.Template is part of the idempotency fingerprint) *)
}.
Definition sinit : sstate := {| ss_base := init_state; ss_schemas := []; ss_slogs := []; ss_logver := [] |}.

Inductive sinput :=
| SInsertSchema (version : str) (c : chart) (tpls : list (str * list posting))
| SWrite (schema_version : str) (template : str) (o : op).

Inductive serr := EBase (e : err) | ESchemaNotFound | ESchemaNotSpecified | ESchemaValidation | ESchemaAlreadyExists.
Inductive sresult := SOk (log_id : Z) (tx_id : option Z) (hit : bool) | SErr (e : serr).
Inductive sstep_result := SSR (s : sstate) (r : sresult) | SSPanic.

Section SchemaCtrl.
  Variable re_valid : str -> bool.
  Variable re_match : str -> str -> bool.
  Variable f : features.

  Definition find_schema (l : list schema_row) (v : str) : option schema_row := List.find (fun r => String.eqb (sc_version r) v) l.
  (* FindLatestSchemaVersion: order by created_at desc limit 1 (the last inserted among the greatest created_at) *)
  Definition latest_schema (l : list schema_row) : option schema_row :=
    fold_left (fun best r => match best with
                             | Some b => if sc_created b <=? sc_created r then Some r else best
                             | None => Some r end) l None.

  Definition chart_defaults (sc : option schema_row) (a : addr) : meta :=
    match sc with
    | Some r => match classify re_valid re_match (sc_chart r) a with CAccept dm => dm | CReject _ => [] end
    | None => []
    end.

  (* UpsertAccounts with a default_metadata column: INSERT uses default || given, UPDATE only the given metadata *)
  Definition upsert_account_d (hist_on : bool) (now : Z) (st : list account * list ahist)
             (a : addr) (dflt md : meta) (first ins upd : option Z) : list account * list ahist :=
    match find_account (fst st) a with
    | Some _ => upsert_account hist_on now st a md first ins upd
    | None => upsert_account hist_on now st a (mmerge dflt md) first ins upd
    end.

  Definition upsert_tx_accounts_d (now : Z) (s : state) (dflt : addr -> meta) (t : tx) (amd : list (addr * meta)) : state :=
    with_accounts s
      (fold_left (fun st a => upsert_account_d (f_acc_hist f) now st a (dflt a) (amd_get amd a) (Some (t_ts t)) (Some (t_ins t)) (Some (t_ins t)))
                 (involved_accounts (t_postings t) amd) (s_accounts s, s_ahist s)).

  (* the operation body with a schema at hand (fn of runLog) *)
  Definition create_tx_d (now : Z) (s : state) (dflt : addr -> meta) (ps : list posting) (ts : option Z) (ref : str) (md : meta)
             (amd : list (addr * meta)) (force : bool) : outcome :=
    match ps with
    | [] => Failed s ENoPostings
    | _ =>
      if negb (feasible force (s_vols s) ps) then Failed s EInsufficientFunds
      else match commit_transaction f now s ps md ts ref with
           | (s1, None) => Failed s1 EReferenceConflict
           | (s1, Some t) => Done (upsert_tx_accounts_d now s1 dflt t amd) (PNewTx t amd)
           end
    end.

  Definition run_input_d (now : Z) (s : state) (dflt : addr -> meta) (i : input) : outcome :=
    match i with
    | ICreate ps ts ref md amd force => create_tx_d now s dflt ps ts ref md amd force
    | IScript ps ts ref md amd force smd samd =>      (* as Core.run_input: the script's metadata merged with the request's *)
      match ps with
      | [] => Failed s ENoPostings
      | _ =>
        if negb (feasible force (s_vols s) ps) then Failed s EInsufficientFunds
        else match script_tx_meta smd md with
             | None => Failed s EMetadataOverride
             | Some md' => create_tx_d now s dflt ps ts ref md' (script_acc_meta samd amd) force
             end
      end
    | ISetMeta (TAcc a) md =>
      Done (with_accounts s (upsert_account_d (f_acc_hist f) now (s_accounts s, s_ahist s) a (dflt a) md (Some now) None None)) (PSetMeta (TAcc a) md)
    | _ => run_input f now s i
    end.

  (* createTransaction's template rules: the postings to run, or a schema validation error *)
  Definition resolve_template (m : mode) (sc : option schema_row) (template : str) (i : input) : option input :=
    match i with
    | ICreate ps ts ref md amd force =>
      match sc with
      | Some r =>
        match sc_templates r with
        | _ :: _ =>
          if String.eqb template "" && (match m with Strict => true | Audit => false end) then None
          else match aget String.eqb (sc_templates r) template with
               | Some tps => Some (ICreate tps ts ref md amd false)
               | None => if String.eqb template "" then Some i     (* audit, no template named: the submitted script runs *)
                         else None                                 (* "failed to find transaction template" — in BOTH modes *)
               end
        | [] => if String.eqb template "" then Some i else None
        end
      | None => if String.eqb template "" then Some i else None  (* "can only use templates on a schema with transaction definitions" *)
      end
    (* a script create: a named template REPLACES the submitted script (parameters.Input.Plain = template.Script), so the
       set_tx_meta / set_account_meta calls of the submitted script go with it (the templates of this model are postings
       lists: they set no metadata); without a template the submitted script runs as it is *)
    | IScript ps ts ref md amd force smd samd =>
      match sc with
      | Some r =>
        match sc_templates r with
        | _ :: _ =>
          if String.eqb template "" && (match m with Strict => true | Audit => false end) then None
          else match aget String.eqb (sc_templates r) template with
               | Some tps => Some (ICreate tps ts ref md amd false)
               | None => if String.eqb template "" then Some i else None
               end
        | [] => if String.eqb template "" then Some i else None
        end
      | None => if String.eqb template "" then Some i else None
      end
    | _ => Some i
    end.

  (* CreatedTransaction.ValidateWithSchema; the other payloads validate trivially *)
  Definition payload_valid (r : schema_row) (p : payload) : bool :=
    match p with
    | PNewTx t _ => forallb (fun q => match validate_posting re_valid re_match (sc_chart r) (p_src q) (p_dst q) with None => true | Some _ => false end) (t_postings t)
    | _ => true
    end.

  Definition with_base (ss : sstate) (b : state) : sstate :=
    {| ss_base := b; ss_schemas := ss_schemas ss; ss_slogs := ss_slogs ss; ss_logver := ss_logver ss |}.
  Definition bump_log (s : state) : state :=
    {| s_vols := s_vols s; s_txs := s_txs s; s_moves := s_moves s; s_accounts := s_accounts s; s_ahist := s_ahist s;
       s_thist := s_thist s; s_logs := s_logs s; s_next_tx := s_next_tx s; s_next_log := s_next_log s + 1; s_next_seq := s_next_seq s |}.

  Definition fail (ss : sstate) (e : serr) : sstep_result := SSR ss (SErr e).
  Definition log_template (ss : sstate) (id : Z) : str :=
    match List.find (fun e => fst e =? id) (ss_logver ss) with Some e => snd (snd e) | None => ""%string end.

  Definition sstep (m : mode) (now : Z) (ss : sstate) (i : sinput) : sstep_result :=
    let s := ss_base ss in
    match i with
    | SInsertSchema v c tpls =>
      match find_schema (ss_schemas ss) v with
      | Some _ => fail ss ESchemaAlreadyExists
      | None =>
        let id := s_next_log s in
        SSR {| ss_base := bump_log s;
               ss_schemas := ss_schemas ss ++ [{| sc_version := v; sc_chart := c; sc_templates := tpls; sc_created := now |}];
               ss_slogs := ss_slogs ss ++ [(id, now, v)]; ss_logver := ss_logver ss |} (SOk id None false)
      end
    | SWrite v template o =>
      match find_ik (s_logs s) (o_ik o) with
      | Some l =>                                   (* idempotent replay: decided before any schema lookup *)
        if negb (String.eqb (log_template ss (l_id l)) template) then fail ss (EBase EIdempotencyInput) else
        match step f now s o with
        | SR s' (ROk l t h) => SSR (with_base ss s') (SOk l t h)
        | SR s' (RErr e) => SSR (with_base ss s') (SErr (EBase e))
        | SPanic => SSPanic
        end
      | None =>
        (* runLog: schema lookup *)
        let lookup : sum (option schema_row) serr :=
          if String.eqb v "" then
            match latest_schema (ss_schemas ss), m with
            | Some _, Strict => inr ESchemaNotSpecified
            | _, _ => inl None
            end
          else match find_schema (ss_schemas ss) v with
               | Some r => inl (Some r)
               | None => inr ESchemaNotFound                       (* in BOTH modes *)
               end in
        match lookup with
        | inr e => fail ss e
        | inl sc =>
          match resolve_template m sc template (o_in o) with
          | None => fail ss ESchemaValidation
          | Some inp =>
            match run_input_d now s (chart_defaults sc) inp with
            | Panicked => SSPanic
            | Failed s1 e => SSR (with_base ss (only_sequences s s1)) (SErr (EBase e))
            | Done s1 p =>
              let valid := match sc with Some r => payload_valid r p | None => true end in
              if negb valid && (match m with Strict => true | Audit => false end)
              then SSR (with_base ss (only_sequences s s1)) (SErr ESchemaValidation)
              else
                let l := {| l_id := s_next_log s1; l_payload := p; l_date := now; l_ik := o_ik o; l_input := o_in o |} in
                let s2 := append_log s1 l in
                if o_dry o then SSR (with_base ss (only_sequences s s2)) (SOk (l_id l) (payload_tx_id p) false)
                else SSR {| ss_base := s2; ss_schemas := ss_schemas ss; ss_slogs := ss_slogs ss; ss_logver := ss_logver ss ++ [(l_id l, (v, template))] |}
                         (SOk (l_id l) (payload_tx_id p) false)
            end
          end
        end
      end
    end.

  Definition stables (ss : sstate) :=
    (s_vols (ss_base ss), s_txs (ss_base ss), s_moves (ss_base ss), s_accounts (ss_base ss), s_ahist (ss_base ss), s_thist (ss_base ss),
     s_logs (ss_base ss), ss_schemas ss, ss_slogs ss, ss_logver ss).
End SchemaCtrl.
