(* What every primitive of the write path changes, and the invariants every reachable state satisfies. *)
From Coq Require Import List ZArith String Bool Lia Sorted.
From LV Require Import Base.Util Ledger.Types Ledger.Core Ledger.VolProofs.
Import ListNotations.
Open Scope Z_scope.

Definition all_postings (s : state) : list posting := flat_map t_postings (s_txs s).

(* ---------- frame lemmas ---------- *)
Lemma commit_some f now s ps md ts ref s1 t :
  commit_transaction f now s ps md ts ref = (s1, Some t) ->
  s_txs s1 = s_txs s ++ [t] /\ t_postings t = ps /\ t_id t = s_next_tx s /\ t_ref t = ref /\ t_meta t = md /\ t_rev t = None /\
  t_ts t = opt_default now ts /\ t_ins t = now /\ t_upd t = now /\
  s_next_tx s1 = s_next_tx s + 1 /\ s_next_log s1 = s_next_log s /\
  s_vols s1 = update_volumes (s_vols s) (volume_updates ps) /\
  t_pcv t = returned_totals (s_vols s1) (volume_updates ps) /\
  s_accounts s1 = s_accounts s /\ s_ahist s1 = s_ahist s /\ s_logs s1 = s_logs s /\
  (ref = ""%string \/ ref_taken (s_txs s) ref = false).
Proof.
  unfold commit_transaction. intros H.
  destruct (negb (ref =? "")%string && ref_taken (s_txs s) ref) eqn:E; [inversion H|].
  destruct (if f_moves f then _ else _) as [[mv nr] sq]. inversion H; subst; clear H. simpl.
  repeat split; try reflexivity.
  apply andb_false_iff in E. destruct E as [E|E].
  - left. apply negb_false_iff, String.eqb_eq in E. exact E.
  - right. exact E.
Qed.

Lemma commit_none f now s ps md ts ref s1 :
  commit_transaction f now s ps md ts ref = (s1, None) ->
  s_txs s1 = s_txs s /\ s_vols s1 = s_vols s /\ s_moves s1 = s_moves s /\ s_accounts s1 = s_accounts s /\ s_ahist s1 = s_ahist s /\
  s_thist s1 = s_thist s /\ s_logs s1 = s_logs s /\ s_next_tx s1 = s_next_tx s + 1 /\ s_next_log s1 = s_next_log s.
Proof.
  unfold commit_transaction. intros H.
  destruct (negb (ref =? "")%string && ref_taken (s_txs s) ref) eqn:E.
  - inversion H; subst; simpl. repeat split; reflexivity.
  - destruct (if f_moves f then _ else _) as [[mv nr] sq]. inversion H.
Qed.

Lemma upsert_tx_accounts_frame f now s t amd :
  let s' := upsert_tx_accounts f now s t amd in
  s_vols s' = s_vols s /\ s_txs s' = s_txs s /\ s_moves s' = s_moves s /\ s_thist s' = s_thist s /\ s_logs s' = s_logs s /\
  s_next_tx s' = s_next_tx s /\ s_next_log s' = s_next_log s /\ s_next_seq s' = s_next_seq s.
Proof. unfold upsert_tx_accounts. destruct (fold_left _ _ _) as [a h]. simpl. repeat split; reflexivity. Qed.

Lemma map_tx_ids txs id fn : (forall t, t_id (fn t) = t_id t) -> map t_id (map_tx txs id fn) = map t_id txs.
Proof. intros H. unfold map_tx. rewrite map_map. apply map_ext. intros t. destruct (t_id t =? id); [apply H|reflexivity]. Qed.

Lemma map_tx_postings txs id fn : (forall t, t_postings (fn t) = t_postings t) ->
  flat_map t_postings (map_tx txs id fn) = flat_map t_postings txs.
Proof. intros H. unfold map_tx. induction txs as [|t r IH]; [reflexivity|]. cbn [map flat_map]. rewrite IH.
  destruct (t_id t =? id); rewrite ?H; reflexivity. Qed.

Lemma map_tx_refs txs id fn : (forall t, t_ref (fn t) = t_ref t) -> map t_ref (map_tx txs id fn) = map t_ref txs.
Proof. intros H. unfold map_tx. rewrite map_map. apply map_ext. intros t. destruct (t_id t =? id); [apply H|reflexivity]. Qed.

(* ---------- the invariant ---------- *)
Definition nonempty (r : str) : bool := negb (String.eqb r "").

(* tables *)
Record InvT (s : state) : Prop := {
  inv_vols : forall k, vget (s_vols s) k = fold_postings (all_postings s) k;
  inv_ids : Forall (fun id => 0 < id < s_next_tx s) (map t_id (s_txs s));
  inv_ids_sorted : StronglySorted Z.lt (map t_id (s_txs s));
  inv_refs : NoDup (filter nonempty (map t_ref (s_txs s)));
  inv_next_tx : 0 < s_next_tx s
}.
(* journal *)
Record InvL (s : state) : Prop := {
  inv_logs : Forall (fun id => 0 < id < s_next_log s) (map l_id (s_logs s));
  inv_logs_sorted : StronglySorted Z.lt (map l_id (s_logs s));
  inv_next_log : 0 < s_next_log s
}.
Definition Inv (s : state) : Prop := InvT s /\ InvL s.

Lemma inv_init : Inv init_state.
Proof. split; constructor; simpl; try (constructor; fail); try lia. Qed.

Lemma Forall_lt_weaken (l : list Z) a b : a <= b -> Forall (fun id => 0 < id < a) l -> Forall (fun id => 0 < id < b) l.
Proof. intros Hab H. eapply Forall_impl; [|exact H]. simpl. intros; lia. Qed.

Lemma sorted_snoc (l : list Z) x : StronglySorted Z.lt l -> Forall (fun y => y < x) l -> StronglySorted Z.lt (l ++ [x]).
Proof.
  induction l as [|y r IH]; intros Hs Hf; simpl.
  - constructor; constructor.
  - inversion Hs; subst. inversion Hf; subst. constructor.
    + apply IH; assumption.
    + apply Forall_app. split; [assumption | constructor; [assumption|constructor]].
Qed.

Lemma ref_taken_false_notin txs r : ref_taken txs r = false -> ~ In r (map t_ref txs).
Proof.
  unfold ref_taken. intros H Hin. apply in_map_iff in Hin. destruct Hin as [t [Ht Hin]].
  assert (existsb (fun t0 => (t_ref t0 =? r)%string) txs = true).
  { apply existsb_exists. exists t. split; [exact Hin|]. subst. apply String.eqb_refl. }
  congruence.
Qed.

Lemma nodup_snoc {A} (l : list A) x : NoDup l -> ~ In x l -> NoDup (l ++ [x]).
Proof. induction l as [|y r IH]; intros Hnd Hn; simpl.
  - constructor; [intros []|constructor].
  - inversion Hnd; subst. constructor.
    + intros Hin. apply in_app_or in Hin. destruct Hin as [Hin|[->|[]]]; [contradiction|]. apply Hn; left; reflexivity.
    + apply IH; [assumption|]. intros Hin; apply Hn; right; exact Hin. Qed.

Lemma nodup_filter_snoc (l : list str) r :
  NoDup (filter nonempty l) -> (r = ""%string \/ ~ In r l) -> NoDup (filter nonempty (l ++ [r])).
Proof.
  intros Hnd Hr. rewrite filter_app. simpl. destruct (nonempty r) eqn:E.
  - destruct Hr as [->|Hn]; [discriminate|].
    apply nodup_snoc; [exact Hnd|]. intros Hin. apply filter_In in Hin. tauto.
  - rewrite app_nil_r. exact Hnd.
Qed.

(* ---------- preservation by the primitives ---------- *)
Lemma commit_some_inv f now s ps md ts ref s1 t :
  InvT s -> commit_transaction f now s ps md ts ref = (s1, Some t) -> InvT s1.
Proof.
  intros [Hv Hi Hs Hr Hn] H. apply commit_some in H.
  destruct H as (Htx & Hps & Hid & Href & _ & _ & _ & _ & _ & Hnx & _ & Hvol & _ & _ & _ & _ & Hfree).
  constructor.
  - intros k. unfold all_postings. rewrite Hvol, Htx, flat_map_app, fold_postings_app. simpl. rewrite app_nil_r, Hps.
    rewrite vget_update_volumes, Hv. reflexivity.
  - rewrite Htx, Hnx, map_app. apply Forall_app. split.
    + eapply Forall_lt_weaken; [|exact Hi]. lia.
    + simpl. constructor; [rewrite Hid; lia | constructor].
  - rewrite Htx, map_app. simpl. apply sorted_snoc; [exact Hs|]. rewrite Hid.
    eapply Forall_impl; [|exact Hi]. simpl. intros; lia.
  - rewrite Htx, map_app. simpl. rewrite Href. apply nodup_filter_snoc; [exact Hr|].
    destruct Hfree as [->|Hf]; [left; reflexivity | right; apply ref_taken_false_notin; exact Hf].
  - lia.
Qed.

Lemma commit_none_inv f now s ps md ts ref s1 :
  InvT s -> commit_transaction f now s ps md ts ref = (s1, None) -> InvT s1.
Proof.
  intros [Hv Hi Hs Hr Hn] H. apply commit_none in H.
  destruct H as (Htx & Hvol & _ & _ & _ & _ & _ & Hnx & _).
  constructor; unfold all_postings in *; rewrite ?Htx, ?Hvol, ?Hnx; try assumption; try lia.
  eapply Forall_lt_weaken; [|exact Hi]. lia.
Qed.

Lemma upsert_tx_accounts_inv f now s t amd : InvT s -> InvT (upsert_tx_accounts f now s t amd).
Proof.
  intros [Hv Hi Hs Hr Hn]. destruct (upsert_tx_accounts_frame f now s t amd) as (E1 & E2 & _ & _ & _ & E3 & _ & _).
  constructor; unfold all_postings in *; rewrite ?E1, ?E2, ?E3; assumption.
Qed.

Definition keeps_identity (fn : tx -> tx) : Prop :=
  forall t, t_id (fn t) = t_id t /\ t_postings (fn t) = t_postings t /\ t_ref (fn t) = t_ref t.

Lemma tx_with_keeps (g : tx -> meta) (upd : Z) (h : tx -> option Z) : keeps_identity (fun x => tx_with x (g x) upd (h x)).
Proof. intros t. repeat split. Qed.

Lemma touch_tx_inv f s t fn : keeps_identity fn -> InvT s -> InvT (touch_tx f s t fn).
Proof.
  intros K [Hv Hi Hs Hr Hn]. constructor; unfold all_postings, touch_tx in *; simpl.
  - intros k. rewrite map_tx_postings by (intros x; apply K). apply Hv.
  - rewrite map_tx_ids by (intros x; apply K). exact Hi.
  - rewrite map_tx_ids by (intros x; apply K). exact Hs.
  - rewrite map_tx_refs by (intros x; apply K). exact Hr.
  - exact Hn.
Qed.

Lemma with_accounts_inv s st : InvT s -> InvT (with_accounts s st).
Proof. intros [Hv Hi Hs Hr Hn]. constructor; assumption. Qed.

Definition outcome_state (o : outcome) (dflt : state) : state :=
  match o with Done s _ => s | Failed s _ => s | Panicked => dflt end.

(* ---------- script creates (IScript) ---------- *)
(* a create whose script sets metadata is a failure that keeps the state, or the plain create of the merged metadata:
   every statement about [run_input] is therefore proved for ICreate first and transported *)
Lemma run_input_script_cases f now s ps ts ref md amd force smd samd :
  (exists e, run_input f now s (IScript ps ts ref md amd force smd samd) = Failed s e) \/
  (exists md', script_tx_meta smd md = Some md' /\
     run_input f now s (IScript ps ts ref md amd force smd samd) =
     run_input f now s (ICreate ps ts ref md' (script_acc_meta samd amd) force)).
Proof.
  simpl. destruct ps as [|p ps']; [left; eexists; reflexivity|].
  destruct (feasible force (s_vols s) (p :: ps')); simpl; [|left; eexists; reflexivity].
  destruct (script_tx_meta smd md) as [md'|]; [right; exists md'; split; reflexivity | left; eexists; reflexivity].
Qed.

(* [script_split i]: from a goal [P i] make (1) [P (ICreate ..)] for all arguments, (2) [P i] with (1) as hypothesis [Hc] *)
Ltac script_split i :=
  pattern i;
  match goal with |- ?P i =>
    assert (Hc : forall ps ts ref md amd force, P (ICreate ps ts ref md amd force));
    [intros ps ts ref md amd force; cbv beta | cbv beta]
  end.
(* the IScript case of such a goal, from [Hc]: a failure on the unchanged state behaves as the create of no postings *)
Ltac script_bullet Hc :=
  match goal with
  | |- context [run_input ?f ?now ?s (IScript ?ps ?ts ?ref ?md ?amd ?force ?smd ?samd)] =>
    let e := fresh "e" in let E := fresh "E" in let md' := fresh "md'" in
    destruct (run_input_script_cases f now s ps ts ref md amd force smd samd) as [[e E]|(md' & _ & E)]; rewrite E;
    [ first [ exact (Hc (@nil posting) ts ref md amd force) | intros; discriminate | intros; congruence ] | apply Hc ]
  end.

Lemma run_input_inv f now s i : InvT s -> InvT (outcome_state (run_input f now s i) s).
Proof.
  intros HI. script_split i.
  { simpl. unfold create_tx. destruct ps as [|p ps']; [exact HI|].
    destruct (feasible force (s_vols s) (p :: ps')); simpl; [|exact HI].
    destruct (commit_transaction f now s (p :: ps') md ts ref) as [s1 [t|]] eqn:E; simpl.
    + apply upsert_tx_accounts_inv. eapply commit_some_inv; eassumption.
    + eapply commit_none_inv; eassumption. }
  destruct i as [ps ts ref md amd force | id force at_eff rmeta | [a|id] md | [a|id] k | ps ts ref md amd force smd samd];
    [apply Hc | | | | | | script_bullet Hc]; simpl.
  - destruct (find_tx (s_txs s) id) as [t|]; [|exact HI].
    destruct (t_rev t); [exact HI|].
    set (mark := fun x : tx => tx_with x (t_meta x) now (Some now)).
    assert (H1 : InvT (touch_tx f s t mark)) by (apply touch_tx_inv; [apply (tx_with_keeps t_meta now (fun _ => Some now)) | exact HI]).
    match goal with |- context [match ?c with RCOk => _ | RCInsufficient => _ | RCPanic => _ end] => destruct c end;
      cbn [outcome_state]; try exact H1; try exact HI.
    match goal with |- context [commit_transaction ?a ?b ?c ?d ?e ?g ?h] => destruct (commit_transaction a b c d e g h) as [s2 [r|]] eqn:E end; cbn [outcome_state].
    + eapply commit_some_inv; [exact H1 | exact E].
    + eapply commit_none_inv; [exact H1 | exact E].
  - apply with_accounts_inv; exact HI.
  - destruct (find_tx (s_txs s) id) as [t|]; [|exact HI].
    destruct (mcontains (t_meta t) md); simpl; [exact HI|].
    apply touch_tx_inv; [apply (tx_with_keeps (fun x => mmerge (t_meta x) md) now t_rev) | exact HI].
  - destruct (find_account (s_accounts s) a); simpl; [apply with_accounts_inv|]; exact HI.
  - destruct (find_tx (s_txs s) id) as [t|]; [|exact HI].
    destruct (mget (t_meta t) k); simpl; [|exact HI].
    apply touch_tx_inv; [apply (tx_with_keeps (fun x => mdel (t_meta x) k) now t_rev) | exact HI].
Qed.

Lemma commit_logs f now s ps md ts ref s1 o :
  commit_transaction f now s ps md ts ref = (s1, o) -> s_logs s1 = s_logs s /\ s_next_log s1 = s_next_log s.
Proof.
  destruct o as [t|]; intros H.
  - apply commit_some in H. tauto.
  - apply commit_none in H. tauto.
Qed.

Lemma run_input_logs f now s i :
  let s' := outcome_state (run_input f now s i) s in s_logs s' = s_logs s /\ s_next_log s' = s_next_log s.
Proof.
  script_split i.
  { simpl. unfold create_tx. destruct ps as [|p ps']; [tauto|].
    destruct (feasible force (s_vols s) (p :: ps')); simpl; [|tauto].
    destruct (commit_transaction f now s (p :: ps') md ts ref) as [s1 [t|]] eqn:E; simpl.
    + destruct (upsert_tx_accounts_frame f now s1 t amd) as (_ & _ & _ & _ & E1 & _ & E2 & _). rewrite E1, E2.
      eapply commit_logs; eassumption.
    + eapply commit_logs; eassumption. }
  destruct i as [ps ts ref md amd force | id force at_eff rmeta | [a|id] md | [a|id] k | ps ts ref md amd force smd samd];
    [apply Hc | | | | | | script_bullet Hc]; simpl.
  - destruct (find_tx (s_txs s) id) as [t|]; [|tauto].
    destruct (t_rev t); [tauto|].
    match goal with |- context [match ?c with RCOk => _ | RCInsufficient => _ | RCPanic => _ end] => destruct c end;
      cbn [outcome_state]; try tauto.
    match goal with |- context [commit_transaction ?a ?b ?c ?d ?e ?g ?h] => destruct (commit_transaction a b c d e g h) as [s2 [r|]] eqn:E end;
      cbn [outcome_state]; apply commit_logs in E; simpl in E; exact E.
  - tauto.
  - destruct (find_tx (s_txs s) id) as [t|]; [|tauto]. destruct (mcontains (t_meta t) md); simpl; tauto.
  - destruct (find_account (s_accounts s) a); simpl; tauto.
  - destruct (find_tx (s_txs s) id) as [t|]; [|tauto]. destruct (mget (t_meta t) k); simpl; tauto.
Qed.

(* ---------- sequences only move forward ---------- *)
Lemma commit_next_mono f now s ps md ts ref s1 o :
  commit_transaction f now s ps md ts ref = (s1, o) -> s_next_tx s <= s_next_tx s1.
Proof. destruct o; intros H; [apply commit_some in H | apply commit_none in H]; lia. Qed.

Lemma run_input_next_mono f now s i : s_next_tx s <= s_next_tx (outcome_state (run_input f now s i) s).
Proof.
  assert (R : s_next_tx s <= s_next_tx s) by apply Z.le_refl.
  script_split i.
  { simpl. unfold create_tx. destruct ps as [|p ps']; [exact R|].
    destruct (feasible force (s_vols s) (p :: ps')); simpl; [|exact R].
    destruct (commit_transaction f now s (p :: ps') md ts ref) as [s1 [t|]] eqn:E; simpl.
    + destruct (upsert_tx_accounts_frame f now s1 t amd) as (_ & _ & _ & _ & _ & E1 & _). rewrite E1. eapply commit_next_mono; eassumption.
    + eapply commit_next_mono; eassumption. }
  destruct i as [ps ts ref md amd force | id force at_eff rmeta | [a|id] md | [a|id] k | ps ts ref md amd force smd samd];
    [apply Hc | | | | | | script_bullet Hc]; simpl.
  - destruct (find_tx (s_txs s) id) as [t|]; [|exact R].
    destruct (t_rev t); [exact R|].
    match goal with |- context [match ?c with RCOk => _ | RCInsufficient => _ | RCPanic => _ end] => destruct c end;
      cbn [outcome_state]; simpl; try exact R.
    match goal with |- context [commit_transaction ?a ?b ?c ?d ?e ?g ?h] => destruct (commit_transaction a b c d e g h) as [s2 [r|]] eqn:E end;
      cbn [outcome_state]; apply commit_next_mono in E; simpl in E; exact E.
  - exact R.
  - destruct (find_tx (s_txs s) id) as [t|]; [|exact R]. destruct (mcontains (t_meta t) md); simpl; exact R.
  - destruct (find_account (s_accounts s) a); simpl; exact R.
  - destruct (find_tx (s_txs s) id) as [t|]; [|exact R]. destruct (mget (t_meta t) k); simpl; exact R.
Qed.

(* ---------- the step ---------- *)
Definition tables (s : state) := (s_vols s, s_txs s, s_moves s, s_accounts s, s_ahist s, s_thist s, s_logs s).

Lemma only_sequences_tables s s1 : tables (only_sequences s s1) = tables s.
Proof. reflexivity. Qed.

Lemma only_sequences_invT s s1 : InvT s -> s_next_tx s <= s_next_tx s1 -> InvT (only_sequences s s1).
Proof.
  intros [Hv Hi Hs Hr Hn] Hle. constructor; unfold all_postings, only_sequences in *; simpl; try assumption; try lia.
  eapply Forall_lt_weaken; eassumption.
Qed.

Lemma only_sequences_invL s s1 : InvL s -> s_next_log s <= s_next_log s1 -> InvL (only_sequences s s1).
Proof.
  intros [Hl Hs Hn] Hle. constructor; unfold only_sequences; simpl; try assumption; try lia.
  eapply Forall_lt_weaken; eassumption.
Qed.

Lemma append_log_invT s l : InvT s -> InvT (append_log s l).
Proof. intros [Hv Hi Hs Hr Hn]. constructor; assumption. Qed.

Lemma append_log_invL s l : InvL s -> l_id l = s_next_log s -> InvL (append_log s l).
Proof.
  intros [Hl Hs Hn] Hid. constructor; unfold append_log; simpl.
  - rewrite map_app. apply Forall_app. split.
    + eapply Forall_lt_weaken; [|exact Hl]. lia.
    + simpl. constructor; [lia|constructor].
  - rewrite map_app. simpl. apply sorted_snoc; [exact Hs|]. rewrite Hid.
    eapply Forall_impl; [|exact Hl]. simpl; intros; lia.
  - lia.
Qed.

Lemma invL_transport s s' : InvL s -> s_logs s' = s_logs s -> s_next_log s' = s_next_log s -> InvL s'.
Proof. intros [Hl Hs Hn] E1 E2. constructor; rewrite ?E1, ?E2; assumption. Qed.

Theorem step_inv f now s o s' r : Inv s -> step f now s o = SR s' r -> Inv s'.
Proof.
  intros [HT HL] H. unfold step in H.
  destruct (find_ik (s_logs s) (o_ik o)) as [l|].
  - destruct (input_eq_dec (l_input l) (o_in o)); inversion H; subst; split; assumption.
  - pose proof (run_input_inv f now s (o_in o) HT) as HT1.
    pose proof (run_input_logs f now s (o_in o)) as [HL1 HL2].
    pose proof (run_input_next_mono f now s (o_in o)) as Hm.
    destruct (run_input f now s (o_in o)) as [s1 p|s1 e|]; cbn [outcome_state] in *; [| |discriminate].
    + assert (HLs1 : InvL s1) by (eapply invL_transport; eassumption).
      set (l := {| l_id := s_next_log s1; l_payload := p; l_date := now; l_ik := o_ik o; l_input := o_in o |}) in *.
      assert (HT2 : InvT (append_log s1 l)) by (apply append_log_invT; exact HT1).
      assert (HL3 : InvL (append_log s1 l)) by (apply append_log_invL; [exact HLs1 | reflexivity]).
      destruct (o_dry o); inversion H; subst; split; try assumption.
      * apply only_sequences_invT; [exact HT | simpl; exact Hm].
      * apply only_sequences_invL; [exact HL | simpl; lia].
    + inversion H; subst. split.
      * apply only_sequences_invT; [exact HT | exact Hm].
      * apply only_sequences_invL; [exact HL | lia].
Qed.

Theorem run_inv f h : Inv (run f h).
Proof.
  unfold run. assert (G : forall s, Inv s -> Inv (fold_left (fun s no => match step f (fst no) s (snd no) with SR s' _ => s' | SPanic => s end) h s)).
  { induction h as [|[now o] r IH]; intros s Hs; simpl; [exact Hs|].
    apply IH. destruct (step f now s o) as [s' res|] eqn:E; [eapply step_inv; eassumption | exact Hs]. }
  apply G, inv_init.
Qed.

(* ---------- what a step does to the tables (C07, C08) ---------- *)
Theorem step_error_no_trace f now s o s' e : step f now s o = SR s' (RErr e) -> tables s' = tables s.
Proof.
  unfold step. destruct (find_ik (s_logs s) (o_ik o)) as [l|].
  - destruct (input_eq_dec (l_input l) (o_in o)); intros H; inversion H; reflexivity.
  - destruct (run_input f now s (o_in o)) as [s1 p|s1 e1|]; [| |discriminate].
    + destruct (o_dry o); intros H; inversion H.
    + intros H; inversion H; subst. reflexivity.
Qed.

Theorem step_dry_no_trace f now s o s' r : o_dry o = true -> step f now s o = SR s' r -> tables s' = tables s.
Proof.
  intros Hd. unfold step. destruct (find_ik (s_logs s) (o_ik o)) as [l|].
  - destruct (input_eq_dec (l_input l) (o_in o)); intros H; inversion H; reflexivity.
  - destruct (run_input f now s (o_in o)) as [s1 p|s1 e1|]; [| |discriminate].
    + rewrite Hd. intros H; inversion H; subst. reflexivity.
    + intros H; inversion H; subst. reflexivity.
Qed.

Theorem step_hit_identity f now s o s' lid tid : step f now s o = SR s' (ROk lid tid true) -> s' = s.
Proof.
  unfold step. destruct (find_ik (s_logs s) (o_ik o)) as [l|].
  - destruct (input_eq_dec (l_input l) (o_in o)); intros H; inversion H; reflexivity.
  - destruct (run_input f now s (o_in o)) as [s1 p|s1 e1|]; [| |discriminate].
    + destruct (o_dry o); intros H; inversion H.
    + intros H; inversion H.
Qed.

(* a committed write appends exactly one log, with the returned id, the submitted key and the current date *)
Theorem step_commit_one_log f now s o s' lid tid :
  o_dry o = false -> step f now s o = SR s' (ROk lid tid false) ->
  exists l, s_logs s' = s_logs s ++ [l] /\ l_id l = lid /\ l_ik l = o_ik o /\ l_date l = now /\ l_input l = o_in o /\
            payload_tx_id (l_payload l) = tid /\ lid = s_next_log s /\ s_next_log s' = lid + 1.
Proof.
  intros Hd. unfold step. destruct (find_ik (s_logs s) (o_ik o)) as [l|].
  - destruct (input_eq_dec (l_input l) (o_in o)); intros H; inversion H.
  - pose proof (run_input_logs f now s (o_in o)) as [HL1 HL2].
    destruct (run_input f now s (o_in o)) as [s1 p|s1 e1|]; cbn [outcome_state] in *; [| |discriminate].
    + rewrite Hd. intros H; inversion H; subst. eexists. simpl. rewrite HL1, HL2. repeat split; reflexivity.
    + intros H; inversion H.
Qed.

(* ---------- shape of an operation on volumes / postings: nothing, or exactly one committed transaction ---------- *)
Definition vol_shape (s s' : state) : Prop :=
  (s_vols s' = s_vols s /\ all_postings s' = all_postings s) \/
  (exists ps, s_vols s' = update_volumes (s_vols s) (volume_updates ps) /\ all_postings s' = all_postings s ++ ps).

Lemma touch_tx_vol_shape f s t fn : keeps_identity fn -> vol_shape s (touch_tx f s t fn).
Proof. intros K. left. split; [reflexivity|]. unfold all_postings, touch_tx; simpl. apply map_tx_postings. intros x; apply K. Qed.

Lemma commit_vol_shape f now s ps md ts ref s1 o : commit_transaction f now s ps md ts ref = (s1, o) -> vol_shape s s1.
Proof.
  destruct o as [t|]; intros H.
  - apply commit_some in H. destruct H as (Htx & Hps & _ & _ & _ & _ & _ & _ & _ & _ & _ & Hvol & _).
    right. exists ps. split; [exact Hvol|]. unfold all_postings. rewrite Htx, flat_map_app. simpl. rewrite app_nil_r, Hps. reflexivity.
  - apply commit_none in H. destruct H as (Htx & Hvol & _). left. unfold all_postings. rewrite Htx, Hvol. split; reflexivity.
Qed.

Lemma vol_shape_refl s : vol_shape s s. Proof. left; split; reflexivity. Qed.

Lemma vol_shape_after_noop s s1 s2 :
  s_vols s1 = s_vols s -> all_postings s1 = all_postings s -> vol_shape s1 s2 -> vol_shape s s2.
Proof. intros E1 E2 [[A B]|[ps [A B]]]; [left | right; exists ps]; rewrite A, B, E1, E2; split; reflexivity. Qed.

Lemma vol_shape_then_noop s s1 s2 :
  vol_shape s s1 -> s_vols s2 = s_vols s1 -> all_postings s2 = all_postings s1 -> vol_shape s s2.
Proof. intros [[A B]|[ps [A B]]] E1 E2; [left | right; exists ps]; rewrite E1, E2, A, B; split; reflexivity. Qed.

Lemma run_input_vol_shape f now s i : vol_shape s (outcome_state (run_input f now s i) s).
Proof.
  script_split i.
  { simpl. unfold create_tx. destruct ps as [|p ps']; [apply vol_shape_refl|].
    destruct (feasible force (s_vols s) (p :: ps')); simpl; [|apply vol_shape_refl].
    destruct (commit_transaction f now s (p :: ps') md ts ref) as [s1 [t|]] eqn:E; simpl.
    + destruct (upsert_tx_accounts_frame f now s1 t amd) as (E1 & E2 & _).
      eapply vol_shape_then_noop; [eapply commit_vol_shape; exact E | exact E1 | unfold all_postings; rewrite E2; reflexivity].
    + eapply commit_vol_shape; exact E. }
  destruct i as [ps ts ref md amd force | id force at_eff rmeta | [a|id] md | [a|id] k | ps ts ref md amd force smd samd];
    [apply Hc | | | | | | script_bullet Hc]; simpl.
  - destruct (find_tx (s_txs s) id) as [t|]; [|apply vol_shape_refl].
    destruct (t_rev t); [apply vol_shape_refl|].
    set (mark := fun x : tx => tx_with x (t_meta x) now (Some now)).
    assert (H1 : vol_shape s (touch_tx f s t mark)) by (apply touch_tx_vol_shape, (tx_with_keeps t_meta now (fun _ => Some now))).
    assert (E1 : s_vols (touch_tx f s t mark) = s_vols s) by reflexivity.
    assert (E2 : all_postings (touch_tx f s t mark) = all_postings s).
    { unfold all_postings, touch_tx; simpl. apply map_tx_postings. intros x; reflexivity. }
    match goal with |- context [match ?c with RCOk => _ | RCInsufficient => _ | RCPanic => _ end] => destruct c end;
      cbn [outcome_state]; try exact H1; try apply vol_shape_refl.
    match goal with |- context [commit_transaction ?a ?b ?c ?d ?e ?g ?h] => destruct (commit_transaction a b c d e g h) as [s2 [r|]] eqn:E end;
      cbn [outcome_state]; apply commit_vol_shape in E; eapply vol_shape_after_noop; eassumption.
  - left; split; reflexivity.
  - destruct (find_tx (s_txs s) id) as [t|]; [|apply vol_shape_refl].
    destruct (mcontains (t_meta t) md); simpl; [apply vol_shape_refl|].
    apply touch_tx_vol_shape, (tx_with_keeps (fun x => mmerge (t_meta x) md) now t_rev).
  - destruct (find_account (s_accounts s) a); simpl; left; split; reflexivity.
  - destruct (find_tx (s_txs s) id) as [t|]; [|apply vol_shape_refl].
    destruct (mget (t_meta t) k); simpl; [|apply vol_shape_refl].
    apply touch_tx_vol_shape, (tx_with_keeps (fun x => mdel (t_meta x) k) now t_rev).
Qed.

Lemma step_vol_shape f now s o s' r : step f now s o = SR s' r -> vol_shape s s'.
Proof.
  unfold step. destruct (find_ik (s_logs s) (o_ik o)) as [l|].
  - destruct (input_eq_dec (l_input l) (o_in o)); intros H; inversion H; apply vol_shape_refl.
  - pose proof (run_input_vol_shape f now s (o_in o)) as Hs.
    destruct (run_input f now s (o_in o)) as [s1 p|s1 e1|]; cbn [outcome_state] in *; [| |discriminate].
    + destruct (o_dry o); intros H; inversion H; subst; [left; split; reflexivity|].
      eapply vol_shape_then_noop; [exact Hs| |]; reflexivity.
    + intros H; inversion H; subst. left; split; reflexivity.
Qed.

(* rows of accounts_volumes: one per key, and every key a stored posting touches has a row *)
Record InvK (s : state) : Prop := {
  inv_vol_nodup : NoDup (map fst (s_vols s));
  inv_vol_cover : forall p, In p (all_postings s) -> In (skey p) (map fst (s_vols s)) /\ In (dkey p) (map fst (s_vols s))
}.

Lemma invK_init : InvK init_state.
Proof. constructor; simpl; [constructor | intros p []]. Qed.

Lemma vol_shape_invK s s' : InvK s -> vol_shape s s' -> InvK s'.
Proof.
  intros [Hn Hc] [[A B]|[ps [A B]]].
  - constructor; rewrite ?A, ?B; assumption.
  - constructor; rewrite A; unfold update_volumes.
    + apply fold_vadd_nodup, Hn.
    + intros p Hin. rewrite B in Hin. apply in_app_or in Hin. destruct Hin as [Hin|Hin].
      * destruct (Hc p Hin). split; apply fold_vadd_keys_mono; assumption.
      * destruct (volume_updates_keys ps p Hin). split; apply fold_vadd_keys_in; assumption.
Qed.

Theorem run_invK f h : InvK (run f h).
Proof.
  unfold run. assert (G : forall s, InvK s -> InvK (fold_left (fun s no => match step f (fst no) s (snd no) with SR s' _ => s' | SPanic => s end) h s)).
  { induction h as [|[now o] r IH]; intros s Hs; simpl; [exact Hs|].
    apply IH. destruct (step f now s o) as [s' res|] eqn:E; [eapply vol_shape_invK; [exact Hs | eapply step_vol_shape; exact E] | exact Hs]. }
  apply G, invK_init.
Qed.

(* ---------- C01: conservation on the rows of accounts_volumes ---------- *)
Definition total_in (c : asset) (m : volmap) : Z := zsum (map (fun kv : key * vol => on_asset c (fst kv) (fst (snd kv))) m).
Definition total_out (c : asset) (m : volmap) : Z := zsum (map (fun kv : key * vol => on_asset c (fst kv) (snd (snd kv))) m).

Lemma conservation_of_inv s c : InvT s -> InvK s -> total_in c (s_vols s) = total_out c (s_vols s).
Proof.
  intros HT [Hn Hc]. unfold total_in, total_out.
  pose proof (rows_as_lookups (s_vols s) (fun k v => on_asset c k (fst v)) Hn) as R1. cbv beta in R1. rewrite R1.
  pose proof (rows_as_lookups (s_vols s) (fun k v => on_asset c k (snd v)) Hn) as R2. cbv beta in R2. rewrite R2.
  rewrite (map_ext _ (fun k => on_asset c k (fst (fold_postings (all_postings s) k)))) by (intros k; rewrite (inv_vols s HT); reflexivity).
  rewrite (map_ext (fun k => on_asset c k (snd (vget (s_vols s) k))) (fun k => on_asset c k (snd (fold_postings (all_postings s) k))))
    by (intros k; rewrite (inv_vols s HT); reflexivity).
  rewrite sum_fold_in by (try exact Hn; intros p Hp; apply Hc; exact Hp).
  rewrite sum_fold_out by (try exact Hn; intros p Hp; apply Hc; exact Hp).
  reflexivity.
Qed.
