(* Model of internal/chart.go: the chart of accounts tree, FindAccountSchema / ValidatePosting,
   ChartOfAccounts.{Marshal,Unmarshal}JSON on JSON trees, and what UnmarshalJSON rejects.

   Go maps are unordered; the model represents every Go map (FixedSegments, Account.Metadata, JSON
   objects) by its CANONICAL association list: keys strictly increasing in byte order.  Each Go map has
   exactly one such representation, and it is also the order in which encoding/json emits object members.
   JSON text <-> tree (lexing, string escapes, UTF-8 sanitising of encoding/json) is not modelled: the
   harness converts.  Regexp compilation / matching of [.pattern] is a Section variable (any engine). *)
From Coq Require Import List String Bool Ascii NArith.
From LV Require Import Base.Util.
Import ListNotations.
Open Scope string_scope.

(* ---------- JSON trees ---------- *)
Inductive json :=
| JNull
| JBool (b : bool)
| JNum (lit : str)
| JStr (s : str)
| JArr (l : list json)
| JObj (m : list (str * json)).

(* ---------- byte order on strings, sorted objects ---------- *)
Fixpoint str_ltb (a b : str) : bool :=
  match a, b with
  | EmptyString, EmptyString => false
  | EmptyString, String _ _ => true
  | String _ _, EmptyString => false
  | String x a', String y b' =>
    if (N_of_ascii x <? N_of_ascii y)%N then true
    else if (N_of_ascii y <? N_of_ascii x)%N then false
    else str_ltb a' b'
  end.

Section Sorted.
  Context {V : Type}.
  Definition lt_all (k : str) (m : list (str * V)) : bool := forallb (fun e => str_ltb k (fst e)) m.
  Fixpoint ssorted (m : list (str * V)) : bool :=
    match m with [] => true | (k, _) :: r => lt_all k r && ssorted r end.
  (* assignment into a Go map followed by key-sorted emission: insert in order, replace an equal key *)
  Fixpoint jinsert (k : str) (v : V) (m : list (str * V)) : list (str * V) :=
    match m with
    | [] => [(k, v)]
    | (k', v') :: r =>
      if str_ltb k k' then (k, v) :: m
      else if String.eqb k k' then (k, v) :: r
      else (k', v') :: jinsert k v r
    end.
  Definition jobj (entries : list (str * V)) : list (str * V) :=
    fold_right (fun e acc => jinsert (fst e) (snd e) acc) [] entries.
End Sorted.

(* ---------- the chart ---------- *)
(* ChartAccount: Metadata map[string]ChartAccountMetadata (nil or a map; Default *string), Rules struct{} *)
Definition mdspec := list (str * option str).
Record chart_account := { ca_meta : option mdspec }.

(* ChartSegment{FixedSegments, VariableSegment *{ChartSegment; Pattern *string; Label}, Account *ChartAccount} *)
Inductive seg :=
| Seg (fixed : list (str * seg)) (var : option (str * option str * seg)) (acct : option chart_account).
Definition chart := list (str * seg).

Definition seg_fixed (s : seg) := match s with Seg f _ _ => f end.
Definition seg_var (s : seg) := match s with Seg _ v _ => v end.
Definition seg_acct (s : seg) := match s with Seg _ _ a => a end.

(* ---------- characters and key classes ---------- *)
Definition is_seg_char (c : ascii) : bool :=
  let n := N_of_ascii c in
  ((48 <=? n) && (n <=? 57) || (65 <=? n) && (n <=? 90) || (97 <=? n) && (n <=? 122) || (n =? 95) || (n =? 45))%N.
Fixpoint all_chars (p : ascii -> bool) (s : str) : bool :=
  match s with EmptyString => true | String c r => p c && all_chars p r end.
(* [a-zA-Z0-9_-]+ *)
Definition name_ok (s : str) : bool := match s with EmptyString => false | _ => all_chars is_seg_char s end.
Definition first_is (c : ascii) (s : str) : bool := match s with String x _ => Ascii.eqb x c | EmptyString => false end.
Definition is_prop (k : str) : bool := first_is "."%char k.
Definition is_var (k : str) : bool := first_is "$"%char k.
Definition tail (s : str) : str := match s with String _ r => r | EmptyString => EmptyString end.
(* ChartSegmentRegexp = ^(\$|\.)?[a-zA-Z0-9_-]+$ *)
Definition valid_segment (k : str) : bool := name_ok k || ((is_prop k || is_var k) && name_ok (tail k)).

Definition PATTERN_KEY := ".pattern".
Definition SELF_KEY := ".self".
Definition RULES_KEY := ".rules".
Definition METADATA_KEY := ".metadata".

Definition jget (m : list (str * json)) (k : str) : option json := aget String.eqb m k.

(* strings.Split(s, ":") — never empty *)
Fixpoint split_colon_aux (cur : str -> str) (s : str) : list str :=
  match s with
  | EmptyString => [cur EmptyString]
  | String c r => if Ascii.eqb c ":"%char then cur EmptyString :: split_colon_aux (fun x => x) r
                  else split_colon_aux (fun x => cur (String c x)) r
  end.
Definition split_colon (s : str) : list str := split_colon_aux (fun x => x) s.

(* ChartAccount.DefaultMetadata *)
Definition default_metadata (a : chart_account) : list (str * str) :=
  match ca_meta a with
  | None => []
  | Some m => flat_map (fun kd => match snd kd with Some v => [(fst kd, v)] | None => [] end) m
  end.

Definition omap {A B} (f : A -> option B) : list A -> option (list B) :=
  fix go (l : list A) : option (list B) :=
    match l with
    | [] => Some []
    | x :: r => match f x with
                | None => None
                | Some y => match go r with None => None | Some ys => Some (y :: ys) end
                end
    end.
Fixpoint cat_somes {A} (l : list (option A)) : list A :=
  match l with [] => [] | Some x :: r => x :: cat_somes r | None :: r => cat_somes r end.

Definition lower_ascii (c : ascii) : ascii :=
  let n := N_of_ascii c in if ((65 <=? n) && (n <=? 90))%N then ascii_of_N (n + 32) else c.
Fixpoint lower (s : str) : str := match s with EmptyString => EmptyString | String c r => String (lower_ascii c) (lower r) end.

Section Chart.
  Variable re_valid : str -> bool.          (* regexp.Compile(p) succeeds *)
  Variable re_match : str -> str -> bool.   (* regexp.Match(p, []byte(s)) for a pattern that compiles *)

  (* ---------- FindAccountSchema ---------- *)
  Inductive cls := CAccept (dm : list (str * str)) | CReject (pattern_mismatch : bool).

  Definition at_end (a : option chart_account) : cls :=
    match a with Some x => CAccept (default_metadata x) | None => CReject false end.

  Fixpoint find (fixed : list (str * seg)) (var : option (str * option str * seg)) (addr : list str) : cls :=
    match addr with
    | [] => CReject false
    | x :: rest =>
      match aget String.eqb fixed x with
      | Some (Seg f v a) => match rest with [] => at_end a | _ => find f v rest end
      | None =>
        match var with
        | Some (_, pat, Seg f v a) =>
          match pat with
          | Some p =>
            if re_valid p then
              if re_match p x then match rest with [] => at_end a | _ => find f v rest end
              else CReject true
            else CReject false                                   (* "invalid pattern regex" *)
          | None => match rest with [] => at_end a | _ => find f v rest end
          end
        | None => CReject false
        end
      end
    end.

  Definition classify (c : chart) (address : str) : cls := find c None (split_colon address).

  (* ValidatePosting: source first, then destination; None = accepted *)
  Definition validate_posting (c : chart) (src dst : str) : option bool :=
    match classify c src with
    | CReject pm => Some pm
    | CAccept _ => match classify c dst with CReject pm => Some pm | CAccept _ => None end
    end.

  (* ---------- MarshalJSON ---------- *)
  Definition marshal_mdspec (m : mdspec) : json :=
    JObj (jobj (map (fun kd => (fst kd, JObj (match snd kd with Some v => [("default", JStr v)] | None => [] end))) m)).

  Definition has_children (fixed : list (str * seg)) (var : option (str * option str * seg)) : bool :=
    match fixed, var with [], None => false | _, _ => true end.

  Definition acct_entries (acct : option chart_account) (children : bool) : list (str * json) :=
    match acct with
    | Some a => (match ca_meta a with Some m => [(METADATA_KEY, marshal_mdspec m)] | None => [] end)
                ++ (if children then [(SELF_KEY, JObj [])] else [])
    | None => []
    end.
  Definition pat_entries (pat : option str) : list (str * json) :=
    match pat with Some p => [(PATTERN_KEY, JStr p)] | None => [] end.

  (* marshalJsonObject (+ the .pattern entry added by ChartVariableSegment.MarshalJSON), then json.Marshal of the map *)
  Fixpoint marshal_seg (pat : option str) (s : seg) : json :=
    match s with
    | Seg fixed var acct =>
      JObj (jobj (map (fun kx => let '(k, x) := kx in (k, marshal_seg None x)) fixed
                  ++ match var with Some (l, p, x) => [(String "$" l, marshal_seg p x)] | None => [] end
                  ++ acct_entries acct (has_children fixed var)
                  ++ pat_entries pat))
    end.
  Definition marshal (c : chart) : json :=
    JObj (jobj (map (fun kx => let '(k, x) := kx in (k, marshal_seg None x)) c)).

  (* ---------- UnmarshalJSON ---------- *)
  (* the pre-scan of a sub-segment value: json.Unmarshal into map[string]any, then the .pattern entry *)
  Definition pattern_of (v : json) : option (option str) :=
    match v with
    | JNull => Some None
    | JObj m => match jget m PATTERN_KEY with
                | None => Some None
                | Some (JStr p) => if re_valid p then Some (Some p) else None
                | Some _ => None
                end
    | _ => None
    end.

  (* json.Unmarshal into ChartAccountMetadata{Default *string `json:"default,omitempty"`}: field names match
     case-insensitively, members are processed in order, unknown members are skipped *)
  Definition decode_md_fields (fs : list (str * json)) : option (option str) :=
    fold_left (fun acc kv =>
      match acc with
      | None => None
      | Some cur =>
        if String.eqb (lower (fst kv)) "default" then
          match snd kv with JStr s => Some (Some s) | JNull => Some None | _ => None end
        else Some cur
      end) fs (Some None).
  Definition decode_md_entry (kv : str * json) : option (str * option str) :=
    match snd kv with
    | JNull => Some (fst kv, None)
    | JObj fs => match decode_md_fields fs with Some d => Some (fst kv, d) | None => None end
    | _ => None
    end.
  (* value of .metadata: Some None = stays a nil map *)
  Definition decode_mdspec (j : json) : option (option mdspec) :=
    match j with
    | JNull => Some None
    | JObj m => match omap decode_md_entry m with Some l => Some (Some l) | None => None end
    | _ => None
    end.

  Definition self_ok (o : option json) : option bool :=     (* Some true = isAccount set *)
    match o with None => Some false | Some JNull => Some true | Some (JObj []) => Some true | Some _ => None end.
  Definition rules_ok (o : option json) : bool :=
    match o with None => true | Some JNull => true | Some (JObj _) => true | Some _ => false end.

  Definition is_fixed_key (k : str) : bool := negb (is_prop k) && negb (is_var k).

  Definition finish (ms : list (str * json)) (fixed : list (str * seg)) (vars : list (str * option str * seg)) : option seg :=
    match vars with
    | _ :: _ :: _ => None                                 (* two variable segments *)
    | _ =>
      let var := match vars with v :: _ => Some v | [] => None end in
      match self_ok (jget ms SELF_KEY) with
      | None => None
      | Some self =>
        match (match jget ms METADATA_KEY with None => Some None | Some j => decode_mdspec j end) with
        | None => None
        | Some md =>
          if negb (rules_ok (jget ms RULES_KEY)) then None else
          let is_account := self || negb (has_children fixed var) in
          let has_md := match jget ms METADATA_KEY with Some _ => true | None => false end in
          let has_rules := match jget ms RULES_KEY with Some _ => true | None => false end in
          if (has_md || has_rules) && negb is_account then None
          else Some (Seg fixed var (if is_account then Some {| ca_meta := md |} else None))
        end
      end
    end.

  Fixpoint unm_seg (j : json) : option seg :=
    match j with
    | JNull => Some (Seg [] None (Some {| ca_meta := None |}))
    | JObj ms =>
      if negb (forallb (fun kv => is_prop (fst kv) || valid_segment (fst kv)) ms) then None else
      match omap (fun kv => let '(k, v) := kv in
                    if is_fixed_key k then
                      match pattern_of v with
                      | Some None => match unm_seg v with Some s => Some (Some (k, s)) | None => None end
                      | _ => None                                    (* pattern on a fixed segment / bad pattern *)
                      end
                    else Some None) ms with
      | None => None
      | Some fixed =>
        match omap (fun kv => let '(k, v) := kv in
                      if is_var k then
                        match pattern_of v with
                        | Some pat => match unm_seg v with Some s => Some (Some (tail k, pat, s)) | None => None end
                        | None => None
                        end
                      else Some None) ms with
        | None => None
        | Some vars => finish ms (cat_somes fixed) (cat_somes vars)
        end
      end
    | _ => None
    end.

  (* ChartOfAccounts.UnmarshalJSON *)
  Definition root_value_ok (v : json) : bool :=
    match v with
    | JNull => true
    | JObj m => match jget m PATTERN_KEY with Some _ => false | None => true end
    | _ => false
    end.
  Definition unmarshal (j : json) : option chart :=
    match j with
    | JNull => Some []
    | JObj ms =>
      omap (fun kv => let '(k, v) := kv in
              if valid_segment k && negb (is_var k) && negb (is_prop k) && root_value_ok v then
                match unm_seg v with Some s => Some (k, s) | None => None end
              else None) ms
    | _ => None
    end.

  (* ---------- valid charts: the canonical representations of what UnmarshalJSON can return ---------- *)
  Fixpoint valid_seg (s : seg) : bool :=
    match s with
    | Seg fixed var acct =>
      ssorted fixed
      && forallb (fun kx => let '(k, x) := kx in name_ok k && valid_seg x) fixed
      && match var with
         | Some (l, p, x) => name_ok l && match p with Some p => re_valid p | None => true end && valid_seg x
         | None => true
         end
      && match acct with
         | Some a => match ca_meta a with Some m => ssorted m | None => true end
         | None => has_children fixed var
         end
    end.
  Definition valid_chart (c : chart) : bool :=
    ssorted c && forallb (fun kx => let '(k, x) := kx in name_ok k && valid_seg x) c.
End Chart.

(* ---------- the small regexp set used by the differential runs (matcher written here) ---------- *)
Definition is_digit (c : ascii) : bool := let n := N_of_ascii c in ((48 <=? n) && (n <=? 57))%N.
Definition is_lower (c : ascii) : bool := let n := N_of_ascii c in ((97 <=? n) && (n <=? 122))%N.
Fixpoint any_char (p : ascii -> bool) (s : str) : bool :=
  match s with EmptyString => false | String c r => p c || any_char p r end.
Definition nonempty (s : str) : bool := match s with EmptyString => false | _ => true end.

Definition small_patterns : list str := ["^[0-9]+$"; "^[a-z]+$"; "^(foo|bar)$"; "[0-9]"; "^u"; ""].
Definition re_valid_small (p : str) : bool := existsb (String.eqb p) small_patterns.
Definition re_match_small (p s : str) : bool :=
  if String.eqb p "^[0-9]+$" then nonempty s && all_chars is_digit s
  else if String.eqb p "^[a-z]+$" then nonempty s && all_chars is_lower s
  else if String.eqb p "^(foo|bar)$" then String.eqb s "foo" || String.eqb s "bar"
  else if String.eqb p "[0-9]" then any_char is_digit s
  else if String.eqb p "^u" then first_is "u"%char s
  else if String.eqb p "" then true
  else false.
