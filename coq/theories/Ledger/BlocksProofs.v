(* Proofs about Ledger/Blocks.v: shape of what one run of create_blocks appends (chain, digest, exactly the committed logs of the
   range at that moment, quiescence), invariants of all event sequences, and the in-order case. *)
From Coq Require Import List Ascii String NArith ZArith Bool Lia.
From LV Require Import Base.Json Ledger.Hash Ledger.Blocks.
Import ListNotations.
Open Scope Z_scope.
Arguments last_id : simpl never.
Arguments end_of : simpl never.

(* ---------------------------------------------------------------- next_above / take_above *)
Lemma next_above_spec com mx :
  (forall e, next_above com mx = Some e -> In e com /\ mx < fst e /\ forall e', In e' com -> mx < fst e' -> fst e <= fst e') /\
  (next_above com mx = None -> forall e', In e' com -> fst e' <= mx).
Proof.
  induction com as [|a r [IHs IHn]]; simpl.
  - split; [discriminate | intros _ e' []].
  - destruct (next_above r mx) as [m|] eqn:E.
    + destruct (IHs m eq_refl) as (Hin & Hgt & Hmin). split; [|destruct ((mx <? fst a) && (fst a <? fst m)); discriminate].
      intros e He. destruct ((mx <? fst a) && (fst a <? fst m)) eqn:C; inversion He; subst.
      * apply andb_true_iff in C. destruct C as [C1 C2]. apply Z.ltb_lt in C1, C2.
        split; [left; reflexivity|]. split; [exact C1|]. intros e' [<-|Hr] Hgt'; [lia|]. specialize (Hmin e' Hr Hgt'). lia.
      * split; [right; exact Hin|]. split; [exact Hgt|]. intros e' [<-|Hr] Hgt'; [|exact (Hmin e' Hr Hgt')].
        apply andb_false_iff in C. destruct C as [C|C]; [apply Z.ltb_ge in C; lia | apply Z.ltb_ge in C; lia].
    + specialize (IHn eq_refl). destruct (mx <? fst a) eqn:C.
      * apply Z.ltb_lt in C. split; [|discriminate]. intros e He. inversion He; subst.
        split; [left; reflexivity|]. split; [exact C|]. intros e' [<-|Hr] Hgt'; [lia|]. specialize (IHn e' Hr). lia.
      * apply Z.ltb_ge in C. split; [discriminate|]. intros _ e' [<-|Hr]; [lia | exact (IHn e' Hr)].
Qed.

(* strictly increasing ids, all above mx *)
Fixpoint incr (mx : Z) (l : list entry) : Prop :=
  match l with [] => True | e :: r => mx < fst e /\ incr (fst e) r end.

Lemma last_id_cons mx e r : last_id mx (e :: r) = last_id (fst e) r.
Proof. reflexivity. Qed.

Lemma incr_last mx l : incr mx l -> mx <= last_id mx l /\ (l <> [] -> mx < last_id mx l).
Proof.
  revert mx. induction l as [|e r IH]; intros mx Hi; simpl in *; [unfold last_id; simpl; split; [lia | congruence]|].
  destruct Hi as [H1 H2]. rewrite last_id_cons. destruct (IH _ H2) as [IH1 _]. split; [lia | intros _; lia].
Qed.

Lemma incr_bounds mx l : incr mx l -> forall e, In e l -> mx < fst e <= last_id mx l.
Proof.
  revert mx. induction l as [|a r IH]; intros mx Hi e []; simpl in Hi; destruct Hi as [H1 H2]; rewrite last_id_cons.
  - subst. destruct (incr_last _ _ H2). lia.
  - specialize (IH _ H2 e H). lia.
Qed.

Lemma incr_app mx a b : incr mx (a ++ b) <-> incr mx a /\ incr (last_id mx a) b.
Proof.
  revert mx. induction a as [|e r IH]; intros mx; simpl; [tauto|]. rewrite IH, last_id_cons. tauto.
Qed.

Lemma last_id_app mx a b : last_id mx (a ++ b) = last_id (last_id mx a) b.
Proof. unfold last_id. apply fold_left_app. Qed.

Lemma incr_nodup mx l : incr mx l -> NoDup (map fst l).
Proof.
  revert mx. induction l as [|e r IH]; intros mx Hi; simpl; [constructor|]. destruct Hi as [_ H2].
  constructor; [|exact (IH _ H2)]. intros Hin. apply in_map_iff in Hin. destruct Hin as [x [Hx Hin]].
  pose proof (incr_bounds _ _ H2 x Hin). lia.
Qed.

Lemma last_id_in mx l : l <> [] -> In (last_id mx l) (map fst l).
Proof.
  revert mx. induction l as [|e r IH]; intros mx Hne; [congruence|]. rewrite last_id_cons. destruct r as [|e2 r2]; [left; reflexivity|].
  right. apply IH. discriminate.
Qed.

Lemma take_above_spec com n : forall mx,
  let sel := take_above com n mx in
  (forall e, In e sel -> In e com) /\ incr mx sel /\
  (forall e', In e' com -> mx < fst e' <= last_id mx sel -> In (fst e') (map fst sel)).
Proof.
  induction n as [|n IH]; intros mx; simpl.
  - repeat split; try tauto. unfold last_id; simpl. intros; lia.
  - destruct (next_above com mx) as [e|] eqn:E; simpl.
    + destruct (proj1 (next_above_spec com mx) e E) as (Hin & Hgt & Hmin). destruct (IH (fst e)) as (I1 & I2 & I3).
      split; [intros x [<-|Hx]; [exact Hin | exact (I1 x Hx)]|]. split; [split; assumption|].
      intros e' He' [Hlo Hhi]. rewrite last_id_cons in Hhi. specialize (Hmin e' He' Hlo).
      destruct (Z.eq_dec (fst e') (fst e)) as [Eq|Ne]; [left; symmetry; exact Eq|]. right. apply I3; [exact He' | lia].
    + repeat split; try tauto. unfold last_id; simpl. intros; lia.
Qed.

(* ---------------------------------------------------------------- blocks: chain + digest *)
Definition hw (p : prevblk) : Z := fst (fst p).
Definition pid (p : prevblk) : Z := snd (fst p).
Definition phash (p : prevblk) : option bytes := snd p.
Definition mids (bs : list block) : list Z := map fst (flat_map k_logs bs).

Section WithHash.
  Variable H : bytes -> bytes.

  (* b continues the chain that ends in p: link, range start, fresh id, non-empty increasing content ending at to_id, documented digest *)
  Definition block_ok (p : prevblk) (b : block) : Prop :=
    k_prev b = pid p /\ k_from b = hw p /\ pid p < k_id b /\ k_logs b <> [] /\ incr (hw p) (k_logs b) /\
    k_to b = last_id (hw p) (k_logs b) /\ k_hash b = H (blk_pre (phash p) (k_logs b)).
  Fixpoint blocks_ok (p : prevblk) (bs : list block) : Prop :=
    match bs with [] => True | b :: r => block_ok p b /\ blocks_ok (k_to b, k_id b, Some (k_hash b)) r end.

  Lemma end_of_cons p b r : end_of p (b :: r) = end_of (k_to b, k_id b, Some (k_hash b)) r.
  Proof. reflexivity. Qed.

  Lemma end_of_app p a b : end_of p (a ++ b) = end_of (end_of p a) b.
  Proof. unfold end_of. apply fold_left_app. Qed.

  Lemma blocks_ok_app p a b : blocks_ok p (a ++ b) <-> blocks_ok p a /\ blocks_ok (end_of p a) b.
  Proof. revert p. induction a as [|x r IH]; intros p; simpl; [tauto|]. rewrite IH, end_of_cons. tauto. Qed.

  Lemma blocks_ok_incr p bs : blocks_ok p bs -> incr (hw p) (flat_map k_logs bs) /\ hw (end_of p bs) = last_id (hw p) (flat_map k_logs bs).
  Proof.
    revert p. induction bs as [|b r IH]; intros p Hok; [split; [exact I | reflexivity]|].
    destruct Hok as [Hb Hr]. destruct Hb as (_ & _ & _ & _ & Hi & Hto & _). destruct (IH _ Hr) as [I1 I2].
    change (hw (k_to b, k_id b, Some (k_hash b))) with (k_to b) in I1, I2.
    rewrite end_of_cons. cbn [flat_map]. split.
    - apply incr_app. split; [exact Hi | rewrite <- Hto; exact I1].
    - rewrite last_id_app, <- Hto. exact I2.
  Qed.

  Lemma blocks_ok_hw_mono p bs : blocks_ok p bs -> hw p <= hw (end_of p bs).
  Proof. intros Hok. destruct (blocks_ok_incr p bs Hok) as [Hi ->]. exact (proj1 (incr_last _ _ Hi)). Qed.

  Lemma blocks_ok_to_le p bs : blocks_ok p bs -> forall b, In b bs -> hw p <= k_from b /\ k_from b < k_to b <= hw (end_of p bs).
  Proof.
    revert p. induction bs as [|x r IH]; intros p Hok b Hin; [destruct Hin|]. destruct Hok as [Hb Hr]. rewrite end_of_cons.
    destruct Hb as (_ & Hf & _ & Hne & Hi & Hto & _). destruct (incr_last _ _ Hi) as [Hle Hlt]. specialize (Hlt Hne). rewrite <- Hto in Hle, Hlt.
    pose proof (blocks_ok_hw_mono _ _ Hr) as Hm. change (hw (k_to x, k_id x, Some (k_hash x))) with (k_to x) in Hm.
    destruct Hin as [<-|Hin]; [lia|].
    destruct (IH _ Hr b Hin) as [A1 A2]. change (hw (k_to x, k_id x, Some (k_hash x))) with (k_to x) in A1. lia.
  Qed.

  (* every id in (start, high-water] lies in the range of exactly the chain's blocks: contiguity *)
  Lemma range_cover p bs : blocks_ok p bs -> forall id, hw p < id <= hw (end_of p bs) -> exists b, In b bs /\ k_from b < id <= k_to b.
  Proof.
    revert p. induction bs as [|x r IH]; intros p Hok id Hid; [change (end_of p []) with p in Hid; lia|].
    destruct Hok as [Hb Hr]. destruct Hb as (_ & Hf & _). rewrite end_of_cons in Hid.
    destruct (Z_le_gt_dec id (k_to x)) as [Hle|Hgt].
    - exists x. split; [left; reflexivity | lia].
    - destruct (IH _ Hr id) as [b [Hin Hb]]; [change (hw (k_to x, k_id x, Some (k_hash x))) with (k_to x); lia|].
      exists b. split; [right; exact Hin | exact Hb].
  Qed.

  (* ---------------------------------------------------------------- one run of create_blocks *)
  Lemma build_spec fuel com n : forall p nb, pid p < nb ->
    let bs := build H fuel com n p nb in
    blocks_ok p bs /\
    (forall b e, In b bs -> In e (k_logs b) -> In e com) /\
    (forall b e', In b bs -> In e' com -> k_from b < fst e' <= k_to b -> In (fst e') (map fst (k_logs b))) /\
    pid (end_of p bs) < nb + Z.of_nat (List.length bs).
  Proof.
    induction fuel as [|f IH]; intros [[mx pd] ph] nb Hnb; simpl.
    - repeat split; try tauto; try (intros ? ? []); unfold end_of, pid in *; simpl in *; lia.
    - destruct (take_above_spec com n mx) as (T1 & T2 & T3).
      destruct (take_above com n mx) as [|e sel'] eqn:E.
      + repeat split; try tauto; try (intros ? ? []); unfold end_of, pid in *; simpl in *; lia.
      + set (sel := e :: sel') in *. set (h := H (blk_pre ph sel)). set (t := last_id mx sel).
        destruct (IH (t, nb, Some h) (nb + 1)) as (B1 & B2 & B3 & B4); [unfold pid; simpl; lia|].
        split; [|split; [|split]].
        * simpl. split; [|exact B1]. unfold block_ok, pid, hw, phash. simpl. repeat split; try reflexivity; try assumption; try discriminate; destruct T2; assumption.
        * intros b x [<-|Hb] Hx; [exact (T1 x Hx) | exact (B2 b x Hb Hx)].
        * intros b x [<-|Hb] Hx Hr; [exact (T3 x Hx Hr) | exact (B3 b x Hb Hx Hr)].
        * rewrite end_of_cons. cbn [k_to k_id k_hash List.length]. rewrite Nat2Z.inj_succ. lia.
  Qed.

  (* number of committed rows above a mark *)
  Definition cnt (com : list entry) (mx : Z) : nat := List.length (filter (fun e => mx <? fst e) com).

  Lemma cnt_le com mx : (cnt com mx <= List.length com)%nat.
  Proof. unfold cnt. induction com as [|a r IH]; simpl; [lia|]. destruct (mx <? fst a); simpl; lia. Qed.

  Lemma cnt_lt com mx t e : In e com -> mx < fst e <= t -> (cnt com t < cnt com mx)%nat.
  Proof.
    intros Hin He. assert (Hmono : forall l, (cnt l t <= cnt l mx)%nat).
    { induction l as [|a r IH]; unfold cnt in *; simpl; [lia|]. destruct (Z.ltb_spec t (fst a)), (Z.ltb_spec mx (fst a)); simpl; lia. }
    induction com as [|a r IH]; [destruct Hin|]. unfold cnt in *. simpl. destruct Hin as [->|Hin].
    - destruct (Z.ltb_spec t (fst e)), (Z.ltb_spec mx (fst e)); try lia. simpl. specialize (Hmono r). unfold cnt in Hmono. lia.
    - specialize (IH Hin). destruct (Z.ltb_spec t (fst a)), (Z.ltb_spec mx (fst a)); simpl; lia.
  Qed.

  (* with a positive block size and enough fuel the loop stops only when no committed log is above the last block *)
  Lemma build_quiescent fuel com n : forall p nb, (cnt com (hw p) < fuel)%nat ->
    forall e', In e' com -> fst e' <= hw (end_of p (build H fuel com (S n) p nb)).
  Proof.
    induction fuel as [|f IH]; intros [[mx pd] ph] nb Hc e' He'; [lia|].
    unfold hw in Hc. cbn [fst] in Hc.
    simpl. destruct (next_above com mx) as [e|] eqn:E.
    - destruct (proj1 (next_above_spec com mx) e E) as (Hin & Hgt & _).
      destruct (take_above_spec com n (fst e)) as (_ & T2 & _).
      rewrite end_of_cons. cbn [k_to k_id k_hash].
      apply IH; [|exact He']. unfold hw. cbn [fst].
      assert (Ht : fst e <= last_id mx (e :: take_above com n (fst e))) by (rewrite last_id_cons; exact (proj1 (incr_last _ _ T2))).
      pose proof (cnt_lt com mx _ e Hin (conj Hgt Ht)). lia.
    - unfold end_of, hw. simpl. exact (proj2 (next_above_spec com mx) E e' He').
  Qed.

  (* ---------------------------------------------------------------- invariants of all event sequences *)
  Definition members_of (s : bstate) : list entry := flat_map k_logs (s_blocks s).

  Record BInv (s : bstate) : Prop := {
    bi_chain : blocks_ok (0, 0, None) (s_blocks s);
    bi_sub : forall e, In e (members_of s) -> In e (s_com s);
    bi_seq : pid (last_prev (s_blocks s)) < s_nextblk s;
    bi_pos : 1 <= s_next s /\ (forall x, In x (s_open s) -> 1 <= fst (snd x)) /\ (forall e, In e (s_com s) -> 1 <= fst e)
  }.

  Lemma find_open_in w o e : find_open w o = Some e -> exists x, In x o /\ snd x = e.
  Proof.
    unfold find_open. destruct (find (fun x => Nat.eqb (fst x) w) o) as [x|] eqn:E; [|discriminate].
    intros He. inversion He; subst. exists x. split; [exact (proj1 (find_some _ _ E)) | reflexivity].
  Qed.

  Lemma drop_open_in w o x : In x (drop_open w o) -> In x o.
  Proof. unfold drop_open. intros Hx. apply filter_In in Hx. tauto. Qed.

  Lemma binv_init : BInv binit.
  Proof. constructor; simpl; try tauto; try (unfold last_prev, end_of, pid; simpl; lia). repeat split; try lia; intros ? []. Qed.

  Lemma flat_map_app_logs (a b : list block) : flat_map k_logs (a ++ b) = flat_map k_logs a ++ flat_map k_logs b.
  Proof. apply flat_map_app. Qed.

  Lemma binv_step s ev : BInv s -> BInv (bstep H s ev).
  Proof.
    intros [Hc Hs Hq (Hp1 & Hp2 & Hp3)]. destruct ev as [w l|w|w|size]; simpl.
    - destruct (find_open w (s_open s)); constructor; simpl; try assumption; try (repeat split; assumption).
      repeat split; [lia | | exact Hp3]. intros x Hx. apply in_app_or in Hx. destruct Hx as [Hx|[<-|[]]]; [exact (Hp2 x Hx) | simpl; lia].
    - destruct (find_open w (s_open s)) as [e|] eqn:E; constructor; simpl; try assumption; try (repeat split; assumption).
      + intros x Hx. apply in_or_app. left. exact (Hs x Hx).
      + destruct (find_open_in _ _ _ E) as [x [Hx <-]]. repeat split; [exact Hp1 | intros y Hy; exact (Hp2 y (drop_open_in _ _ _ Hy)) |].
        intros y Hy. apply in_app_or in Hy. destruct Hy as [Hy|[<-|[]]]; [exact (Hp3 y Hy) | exact (Hp2 x Hx)].
    - constructor; simpl; try assumption. repeat split; try assumption. intros y Hy. exact (Hp2 y (drop_open_in _ _ _ Hy)).
    - destruct (build_spec (S (List.length (s_com s))) (s_com s) (Z.to_nat size) (last_prev (s_blocks s)) (s_nextblk s) Hq) as (B1 & B2 & _ & B4).
      constructor; simpl.
      + apply blocks_ok_app. split; [exact Hc | exact B1].
      + unfold members_of. simpl. rewrite flat_map_app_logs. intros e He. apply in_app_or in He. destruct He as [He|He]; [exact (Hs e He)|].
        apply in_flat_map in He. destruct He as [b [Hb He]]. exact (B2 b e Hb He).
      + unfold last_prev. rewrite end_of_app. exact B4.
      + repeat split; assumption.
  Qed.

  Theorem binv_run evs : BInv (brun H evs).
  Proof.
    unfold brun. rewrite <- (rev_involutive evs). induction (rev evs) as [|ev r IH]; [exact binv_init|].
    simpl. rewrite fold_left_app. simpl. apply binv_step. exact IH.
  Qed.

  Lemma binv_from s evs : BInv s -> BInv (fold_left (bstep H) evs s).
  Proof. revert s. induction evs as [|ev r IH]; intros s Hs; [exact Hs|]. simpl. apply IH. apply binv_step. exact Hs. Qed.

  (* no log is ever in two blocks: the member ids of the whole chain are strictly increasing *)
  Theorem members_once s : BInv s -> incr 0 (members_of s) /\ NoDup (mids (s_blocks s)).
  Proof.
    intros Hi. destruct (blocks_ok_incr _ _ (bi_chain s Hi)) as [Hinc _]. change (hw (0, 0, None)) with 0 in Hinc.
    split; [exact Hinc | exact (incr_nodup _ _ Hinc)].
  Qed.

  (* what ONE run of the builder achieves, from any reachable state (the strongest statement true of all schedules) *)
  Theorem run_blocks_partial s size : BInv s -> 1 <= size ->
    let s' := bstep H s (RunBlocks size) in
    (forall e, In e (s_com s) -> In (fst e) (mids (s_blocks s)) \/ hw (last_prev (s_blocks s)) < fst e -> In (fst e) (mids (s_blocks s'))) /\
    (forall e, In e (s_com s') -> fst e <= hw (last_prev (s_blocks s'))) /\
    (forall e, In e (s_com s) -> fst e <= hw (last_prev (s_blocks s)) -> ~ In (fst e) (mids (s_blocks s)) -> ~ In (fst e) (mids (s_blocks s'))).
  Proof.
    intros Hi Hsz. cbn [bstep s_blocks s_com].
    set (p := last_prev (s_blocks s)). set (nbs := build H (S (List.length (s_com s))) (s_com s) (Z.to_nat size) p (s_nextblk s)).
    destruct (build_spec (S (List.length (s_com s))) (s_com s) (Z.to_nat size) p (s_nextblk s) (bi_seq s Hi)) as (B1 & B2 & B3 & _). fold nbs in B1, B2, B3.
    assert (Hq : forall e', In e' (s_com s) -> fst e' <= hw (end_of p nbs)).
    { destruct (Z.to_nat size) as [|n] eqn:En; [lia|]. unfold nbs. apply build_quiescent. pose proof (cnt_le (s_com s) (hw p)). lia. }
    assert (Hm : mids (s_blocks s ++ nbs) = mids (s_blocks s) ++ mids nbs) by (unfold mids; rewrite flat_map_app_logs, map_app; reflexivity).
    split; [|split].
    - intros e He [Hold|Hnew]; rewrite Hm; apply in_or_app; [left; exact Hold|]. right.
      destruct (range_cover p nbs B1 (fst e)) as [b [Hb Hr]]; [split; [exact Hnew | exact (Hq e He)]|].
      unfold mids. apply in_map_iff. specialize (B3 b e Hb He Hr). apply in_map_iff in B3. destruct B3 as [x [Hx1 Hx2]].
      exists x. split; [exact Hx1|]. apply in_flat_map. exists b. split; assumption.
    - intros e He. unfold last_prev. rewrite end_of_app. exact (Hq e He).
    - intros e He Hle Hnot Hin. rewrite Hm in Hin. apply in_app_or in Hin. destruct Hin as [Hin|Hin]; [exact (Hnot Hin)|].
      destruct (blocks_ok_incr p nbs B1) as [Hinc _]. unfold mids in Hin. apply in_map_iff in Hin. destruct Hin as [x [Hx1 Hx2]].
      pose proof (incr_bounds _ _ Hinc x Hx2). fold p in Hle. lia.
  Qed.

  (* ---------------------------------------------------------------- commits in id order *)
  Definition inorder_step (s : bstate) (ev : event) : Prop :=
    match ev with
    | Commit w => match find_open w (s_open s) with Some e => forall e', In e' (s_com s) -> fst e' < fst e | None => True end
    | _ => True
    end.
  Fixpoint inorder_from (s : bstate) (evs : list event) : Prop :=
    match evs with [] => True | ev :: r => inorder_step s ev /\ inorder_from (bstep H s ev) r end.

  (* every block's digest covers ALL committed logs of its range *)
  Definition full_blocks (s : bstate) : Prop :=
    forall b e, In b (s_blocks s) -> In e (s_com s) -> k_from b < fst e <= k_to b -> In (fst e) (map fst (k_logs b)).

  Lemma hw_is_member s : BInv s -> hw (last_prev (s_blocks s)) = 0 \/ exists e, In e (s_com s) /\ fst e = hw (last_prev (s_blocks s)).
  Proof.
    intros Hi. destruct (blocks_ok_incr _ _ (bi_chain s Hi)) as [_ Hl]. fold (last_prev (s_blocks s)) in Hl. change (hw (0, 0, None)) with 0 in Hl.
    destruct (flat_map k_logs (s_blocks s)) as [|x r] eqn:E; [left; rewrite Hl; reflexivity|]. right.
    assert (Hne : x :: r <> []) by discriminate. pose proof (last_id_in 0 (x :: r) Hne) as Hin. rewrite <- Hl in Hin.
    apply in_map_iff in Hin. destruct Hin as [e [He1 He2]]. exists e. split; [|exact He1]. apply (bi_sub s Hi). unfold members_of. rewrite E. exact He2.
  Qed.

  Lemma full_step s ev : BInv s -> full_blocks s -> inorder_step s ev -> full_blocks (bstep H s ev).
  Proof.
    intros Hi Hf Ho. destruct ev as [w l|w|w|size]; simpl.
    - destruct (find_open w (s_open s)); exact Hf.
    - simpl in Ho. destruct (find_open w (s_open s)) as [e|] eqn:E; [|exact Hf].
      intros b x Hb Hx Hr. simpl in *. apply in_app_or in Hx. destruct Hx as [Hx|[<-|[]]]; [exact (Hf b x Hb Hx Hr)|]. exfalso.
      destruct (blocks_ok_to_le _ _ (bi_chain s Hi) b Hb) as [_ Hto]. fold (last_prev (s_blocks s)) in Hto.
      destruct (find_open_in _ _ _ E) as [y [Hy <-]]. pose proof (proj1 (proj2 (bi_pos s Hi)) y Hy) as Hpos.
      destruct (hw_is_member s Hi) as [H0|[m [Hm1 Hm2]]]; [lia|]. specialize (Ho m Hm1). lia.
    - exact Hf.
    - destruct (build_spec (S (List.length (s_com s))) (s_com s) (Z.to_nat size) (last_prev (s_blocks s)) (s_nextblk s) (bi_seq s Hi)) as (_ & _ & B3 & _).
      intros b e Hb He Hr. simpl in *. apply in_app_or in Hb. destruct Hb as [Hb|Hb]; [exact (Hf b e Hb He Hr) | exact (B3 b e Hb He Hr)].
  Qed.

  Lemma full_run evs : forall s, BInv s -> full_blocks s -> inorder_from s evs -> full_blocks (fold_left (bstep H) evs s).
  Proof.
    induction evs as [|ev r IH]; intros s Hi Hf Ho; [exact Hf|]. destruct Ho as [Ho1 Ho2]. simpl.
    apply IH; [apply binv_step; exact Hi | apply full_step; assumption | exact Ho2].
  Qed.

  Theorem inorder_quiescent evs size : inorder_from binit evs -> 1 <= size ->
    let s := brun H (evs ++ [RunBlocks size]) in
    blocks_ok (0, 0, None) (s_blocks s) /\
    (forall id, In id (map fst (s_com s)) <-> In id (mids (s_blocks s))) /\
    NoDup (mids (s_blocks s)) /\
    (forall b e, In b (s_blocks s) -> (In e (s_com s) /\ k_from b < fst e <= k_to b <-> In (fst e) (map fst (k_logs b)) /\ In e (s_com s))).
  Proof.
    intros Ho Hsz. unfold brun. rewrite fold_left_app. cbn [fold_left]. set (s0 := fold_left (bstep H) evs binit).
    assert (Hi0 : BInv s0) by (apply binv_run).
    assert (Hf0 : full_blocks s0) by (apply full_run; [exact binv_init | intros b e [] | exact Ho]).
    pose proof (binv_step s0 (RunBlocks size) Hi0) as Hi1.
    pose proof (full_step s0 (RunBlocks size) Hi0 Hf0 I) as Hf1.
    destruct (run_blocks_partial s0 size Hi0 Hsz) as (_ & Hq & _).
    set (s1 := bstep H s0 (RunBlocks size)) in *.
    split; [exact (bi_chain s1 Hi1)|]. split; [|split; [exact (proj2 (members_once s1 Hi1))|]].
    - intros id. split.
      + intros Hin. apply in_map_iff in Hin. destruct Hin as [e [<- He]].
        pose proof (proj2 (proj2 (bi_pos s1 Hi1)) e He) as Hpos. specialize (Hq e He).
        destruct (range_cover _ _ (bi_chain s1 Hi1) (fst e)) as [b [Hb Hr]]; [split; [change (hw (0, 0, None)) with 0; lia | exact Hq]|].
        specialize (Hf1 b e Hb He Hr). unfold mids. apply in_map_iff in Hf1. destruct Hf1 as [x [Hx1 Hx2]]. apply in_map_iff.
        exists x. split; [exact Hx1|]. apply in_flat_map. exists b. split; assumption.
      + intros Hin. unfold mids in Hin. apply in_map_iff in Hin. destruct Hin as [x [<- Hx]]. apply in_map. exact (bi_sub s1 Hi1 x Hx).
    - intros b e Hb. split.
      + intros [He Hr]. split; [exact (Hf1 b e Hb He Hr) | exact He].
      + intros [Hin He]. split; [exact He|]. apply in_map_iff in Hin. destruct Hin as [x [Hx1 Hx2]].
        apply in_split in Hb. destruct Hb as [l1 [l2 Hb]]. pose proof (bi_chain s1 Hi1) as Hc. rewrite Hb in Hc.
        apply blocks_ok_app in Hc. destruct Hc as [_ Hc]. simpl in Hc. destruct Hc as [(_ & Hfr & _ & _ & Hinc & Hto & _) _].
        pose proof (incr_bounds _ _ Hinc x Hx2). rewrite <- Hx1. rewrite Hfr, Hto. exact H0.
  Qed.

  (* a committed log that the builder has passed stays uncovered whatever happens next *)
  Theorem skipped_forever evs' : forall s e, BInv s -> In e (s_com s) -> fst e <= hw (last_prev (s_blocks s)) -> ~ In (fst e) (mids (s_blocks s)) ->
    ~ In (fst e) (mids (s_blocks (fold_left (bstep H) evs' s))).
  Proof.
    induction evs' as [|ev r IH]; intros s e Hi He Hle Hnot; [exact Hnot|]. simpl.
    assert (Hcom : In e (s_com (bstep H s ev))).
    { destruct ev as [w l|w|w|size]; simpl; try exact He; destruct (find_open w (s_open s)); simpl; try exact He. apply in_or_app. left. exact He. }
    apply IH; [apply binv_step; exact Hi | exact Hcom | |].
    - destruct ev as [w l|w|w|size]; cbn [bstep s_blocks s_com]; try exact Hle; try (destruct (find_open w (s_open s)); exact Hle).
      destruct (build_spec (S (List.length (s_com s))) (s_com s) (Z.to_nat size) (last_prev (s_blocks s)) (s_nextblk s) (bi_seq s Hi)) as (B1 & _).
      unfold last_prev. rewrite end_of_app. pose proof (blocks_ok_hw_mono _ _ B1). fold (last_prev (s_blocks s)). lia.
    - destruct ev as [w l|w|w|size]; cbn [bstep s_blocks s_com]; try exact Hnot; try (destruct (find_open w (s_open s)); exact Hnot).
      destruct (build_spec (S (List.length (s_com s))) (s_com s) (Z.to_nat size) (last_prev (s_blocks s)) (s_nextblk s) (bi_seq s Hi)) as (B1 & _).
      intros Hin. unfold mids in Hin. rewrite flat_map_app_logs, map_app in Hin. apply in_app_or in Hin. destruct Hin as [Hin|Hin]; [exact (Hnot Hin)|].
      destruct (blocks_ok_incr _ _ B1) as [Hinc _]. apply in_map_iff in Hin. destruct Hin as [x [Hx1 Hx2]].
      pose proof (incr_bounds _ _ Hinc x Hx2). lia.
  Qed.
End WithHash.
