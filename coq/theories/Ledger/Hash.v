(* Byte pre-images of the log hash, on both sides:
     go_preimage  : what internal/log.go:Log.ComputeHash writes into sha256 (json.NewEncoder(digest): the previous hash as a
                    base64 JSON string + newline, then the anonymous struct type/data/date/idempotencyKey/id/hash/
                    schemaVersion(omitempty) + newline);
     sql_preimage : what the EFFECTIVE trigger set_log_hash (the inline version re-created by migration 37-clean-database;
                    compute_hash of migrations 35/47 is called by nothing) passes to public.digest(_, 'sha256').
   A log is seen at byte level: its type, the memento bytes (json.Marshal(memento), produced by Go and stored in
   logs.memento; both sides consume these same bytes), the date (microseconds since the Unix epoch, UTC), the
   idempotency key, the schema version and the content of the Hash field when ComputeHash is called.
   SHA-256 is not modelled: theorems are about pre-images, hence hold for every hash function. *)
From Coq Require Import List Ascii String NArith ZArith Bool Lia.
From LV Require Import Base.Json.
Import ListNotations.

Inductive ltype := TSetMeta | TNewTx | TRevert | TDelMeta | TSchema.
Definition type_name (t : ltype) : bytes :=
  match t with
  | TSetMeta => B "SET_METADATA" | TNewTx => B "NEW_TRANSACTION" | TRevert => B "REVERTED_TRANSACTION"
  | TDelMeta => B "DELETE_METADATA" | TSchema => B "INSERTED_SCHEMA"
  end.

Record hlog := { h_type : ltype; h_memento : bytes; h_date : Z; h_ik : bytes; h_sv : bytes; h_hash : option bytes }.

(* ---------------------------------------------------------------- dates *)
Open Scope Z_scope.
Record civil := { c_y : Z; c_mo : Z; c_d : Z; c_hh : Z; c_mi : Z; c_ss : Z; c_us : Z }.

(* proleptic Gregorian calendar from a day count (days since 1970-01-01); Z division is floor division *)
Definition civil_of_days (days : Z) : Z * Z * Z :=
  let z := days + 719468 in
  let era := z / 146097 in
  let doe := z - era * 146097 in
  let yoe := (doe - doe / 1460 + doe / 36524 - doe / 146096) / 365 in
  let doy := doe - (365 * yoe + yoe / 4 - yoe / 100) in
  let mp := (5 * doy + 2) / 153 in
  let d := doy - (153 * mp + 2) / 5 + 1 in
  let m := if mp <? 10 then mp + 3 else mp - 9 in
  (yoe + era * 400 + (if m <=? 2 then 1 else 0), m, d).

Definition civil_of_us (t : Z) : civil :=
  let day := t / 86400000000 in
  let r := t mod 86400000000 in
  let '(y, m, d) := civil_of_days day in
  {| c_y := y; c_mo := m; c_d := d; c_hh := r / 3600000000; c_mi := (r / 60000000) mod 60; c_ss := (r / 1000000) mod 60; c_us := r mod 1000000 |}.

Definition digit (n : Z) : ascii := chr (Z.to_N (48 + n mod 10)).
(* n printed on exactly k decimal digits (n >= 0), most significant first *)
Fixpoint digits (k : nat) (n : Z) : bytes :=
  match k with O => [] | S k' => digits k' (n / 10) ++ [digit n] end.
(* at least 4 digits, more when needed (Go appendInt(year, 4), C printf %04d) *)
Definition pad4 (n : Z) : bytes :=
  if n <? 10000 then digits 4 n else if n <? 100000 then digits 5 n else if n <? 1000000 then digits 6 n else digits 7 n.

Definition is_zero (c : ascii) : bool := (code c =? 48)%N.
Fixpoint drop_zeros (l : bytes) : bytes := match l with [] => [] | c :: r => if is_zero c then drop_zeros r else l end.
Definition trim_zeros (l : bytes) : bytes := rev (drop_zeros (rev l)).
Definition frac (ds : bytes) : bytes := match trim_zeros ds with [] => [] | t => "."%char :: t end.

Definition hms (c : civil) : bytes :=
  digits 2 (c_hh c) ++ B ":" ++ digits 2 (c_mi c) ++ B ":" ++ digits 2 (c_ss c).
Definition md (c : civil) : bytes := B "-" ++ digits 2 (c_mo c) ++ B "-" ++ digits 2 (c_d c).

(* Go: go-libs time.Time.MarshalJSON = Format(time.RFC3339Nano) of a UTC instant: 2006-01-02T15:04:05.999999999Z;
   the fraction is printed from the NANOsecond field on 9 digits with trailing zeros removed *)
Definition go_year (y : Z) : bytes := if y <? 0 then B "-" ++ pad4 (- y) else pad4 y.
Definition go_date (t : Z) : bytes :=
  let c := civil_of_us t in
  go_year (c_y c) ++ md c ++ B "T" ++ hms c ++ frac (digits 9 (c_us c * 1000)) ++ B "Z".

(* PostgreSQL: to_json(timestamp) #>> '{}' (json.c:JsonEncodeDateTime, EncodeDateTime style USE_XSD_DATES):
   YYYY-MM-DDTHH:MM:SS[.ffffff] with trailing zeros of the MICROsecond fraction removed, the suffix BC (after a space) appended for years <= 0;
   the trigger appends the letter Z itself *)
Definition pg_date (t : Z) : bytes :=
  let c := civil_of_us t in
  pad4 (if c_y c <=? 0 then 1 - c_y c else c_y c) ++ md c ++ B "T" ++ hms c ++ frac (digits 6 (c_us c))
  ++ (if c_y c <=? 0 then B " BC" else []).

(* ---------------------------------------------------------------- Go: Log.ComputeHash *)
Definition go_hash_field (h : option bytes) : bytes :=
  match h with None => B "null" | Some x => [dq] ++ base64 x ++ [dq] end.

Definition go_struct (l : hlog) : bytes :=
  B "{" ++ go_string (B "type") ++ B ":" ++ go_string (type_name (h_type l))
  ++ B "," ++ go_string (B "data") ++ B ":" ++ h_memento l
  ++ B "," ++ go_string (B "date") ++ B ":" ++ [dq] ++ go_date (h_date l) ++ [dq]
  ++ B "," ++ go_string (B "idempotencyKey") ++ B ":" ++ go_string (h_ik l)
  ++ B "," ++ go_string (B "id") ++ B ":0"
  ++ B "," ++ go_string (B "hash") ++ B ":" ++ go_hash_field (h_hash l)
  ++ (match h_sv l with [] => [] | sv => B "," ++ go_string (B "schemaVersion") ++ B ":" ++ go_string sv end)
  ++ B "}".

(* prev = hash of the previous log (None: there is no previous log) *)
Definition go_preimage (prev : option bytes) (l : hlog) : bytes :=
  (match prev with None => [] | Some p => [dq] ++ base64 p ++ [dq; nl] end) ++ go_struct l ++ [nl].

(* ---------------------------------------------------------------- SQL: set_log_hash (migration 37) *)
(* marshalledAsJSON: plain text concatenation; new.schema_version does not occur in the function *)
Definition sql_text (l : hlog) : bytes :=
  B "{" ++ [dq] ++ B "type" ++ [dq] ++ B ":" ++ [dq] ++ type_name (h_type l) ++ [dq]
  ++ B "," ++ [dq] ++ B "data" ++ [dq] ++ B ":" ++ bytea_escape (h_memento l)
  ++ B "," ++ [dq] ++ B "date" ++ [dq] ++ B ":" ++ [dq] ++ pg_date (h_date l) ++ B "Z" ++ [dq]
  ++ B "," ++ [dq] ++ B "idempotencyKey" ++ [dq] ++ B ":" ++ [dq] ++ h_ik l ++ [dq]
  ++ B "," ++ [dq] ++ B "id" ++ [dq] ++ B ":0"
  ++ B "," ++ [dq] ++ B "hash" ++ [dq] ++ B ":null"
  ++ B "}".

(* case when previousHash is null then marshalledAsJSON::bytea
        else DQ || encode(previousHash::bytea, 'base64')::bytea || DQ NEWLINE || marshalledAsJSON::bytea end || NEWLINE
   (DQ = the double-quote character). None = the cast raises (22P02): the insert, and with it the whole write, fails *)
Definition sql_preimage (prev : option bytes) (l : hlog) : option bytes :=
  match bytea_in (sql_text l) with
  | None => None
  | Some body =>
    match prev with
    | None => Some (body ++ [nl])
    | Some p => match bytea_in (pg_base64 p) with
                | None => None
                | Some b64 => Some ([dq] ++ b64 ++ [dq; nl] ++ body ++ [nl])
                end
    end
  end.

Section WithHash.
  Variable H : bytes -> bytes.
  Definition go_hash (prev : option bytes) (l : hlog) : bytes := H (go_preimage prev l).
  Definition sql_hash (prev : option bytes) (l : hlog) : option bytes := option_map H (sql_preimage prev l).
End WithHash.
