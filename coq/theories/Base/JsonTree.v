(* JSON trees as the request decoders see them, plus the two number conversions Go applies to a JSON
   number: exact integer (math/big) and IEEE-754 binary64 (encoding/ajson into `any` = strconv.ParseFloat,
   correctly rounded, round-half-even), the amd64 float64->int conversion and fmt's %v of a float64.
   Strings are byte strings (valid UTF-8 is the harness's responsibility). *)
From Coq Require Import List ZArith String Ascii Bool DecimalString DecimalZ Decimal.
Import ListNotations.
Open Scope Z_scope.

(* AJNum m None      : a plain integer literal  -?digits            (value m)
   AJNum m (Some e)  : a literal with a fraction and/or an exponent  (value m * 10^e); how it is spelled
                      ("15e-1", "1.5", "0.15E1") is immaterial to every Go consumer modelled here. *)
Inductive ajson :=
| AJNull
| AJBool (b : bool)
| AJNum (m : Z) (e : option Z)
| AJStr (s : string)
| AJArr (l : list ajson)
| AJObj (l : list (string * ajson)).

(* ------------------------------------------------------------------ decimal text of integers *)
Definition zstr (n : Z) : string := NilZero.string_of_int (Z.to_int n).          (* big.Int.String, %d *)
(* big.Int.SetString(s, 10): optional sign, at least one digit, digits only *)
Definition zparse (s : string) : option Z :=
  let body := match s with
              | String c r => if Ascii.eqb c "+" then (match r with String c' _ => if Ascii.eqb c' "-" then EmptyString else r | EmptyString => r end) else s
              | EmptyString => s
              end in
  match NilZero.int_of_string body with Some d => Some (Z.of_int d) | None => None end.

(* ------------------------------------------------------------------ binary64
   NOTE: since the repair fixes/09 (vm.ScriptV1 decodes with json.Decoder.UseNumber) no decoder modelled in Ledger/Api.v goes through
   float64 any more; the definitions below (correct rounding, amd64 float->int, shortest %v) describe the pre-repair behaviour and the
   float64 branch ScriptV1.ToCore keeps for programmatic callers. They agreed with Go on ~100 000 generated literals while tied; they are
   no longer exercised by a tie and no theorem depends on them. *)
(* |value| of a literal as a fraction num/den (den > 0); guards keep 10^e small: beyond them the value
   overflows binary64 (`FOver`) or rounds to zero (`FZero`) whatever the mantissa is. *)
Inductive ratio := FOver | FZero | FRat (num den : Z).
Definition lit_ratio (m : Z) (e : option Z) : ratio :=
  let a := Z.abs m in
  if a =? 0 then FZero else
  match e with
  | None => FRat a 1
  | Some e =>
      if 0 <=? e then (if 310 <? e then FOver else FRat (a * 10 ^ e) 1)
      else if Z.log2 a + 1 + e <? -400 then FZero else FRat a (10 ^ (- e))
  end.

(* correctly rounded binary64 of num/den > 0: Some (q, sh) with value q * 2^sh, 2^52 <= q < 2^53 (or sh = -1074,
   subnormal); None = overflow (strconv.ParseFloat returns ErrRange, ajson.Unmarshal fails) *)
Definition round_f64 (num den : Z) : option (Z * Z) :=
  let ln := Z.log2 num in
  let ld := Z.log2 den in
  let d0 := ln - ld in
  let ge := if 0 <=? d0 then den * 2 ^ d0 <=? num else den <=? num * 2 ^ (- d0) in
  let E := if ge then d0 else d0 - 1 in
  let sh := Z.max (E - 52) (-1074) in
  let n' := if 0 <=? sh then num else num * 2 ^ (- sh) in
  let d' := if 0 <=? sh then den * 2 ^ sh else den in
  let q := n' / d' in
  let r := n' mod d' in
  let q1 := if (d' <? 2 * r) || ((d' =? 2 * r) && Z.odd q) then q + 1 else q in
  let q2 := if q1 =? 2 ^ 53 then 2 ^ 52 else q1 in
  let sh2 := if q1 =? 2 ^ 53 then sh + 1 else sh in
  if 972 <=? sh2 then None else Some (q2, sh2).

Inductive f64 := F64 (neg : bool) (q sh : Z).   (* (-1)^neg * q * 2^sh ; q = 0 is zero *)

(* exact integers below 2^53 need no rounding: kept as a separate first branch so that the exactness
   theorem for small amounts is immediate; round_f64 agrees with it (checked by the tie) *)
Definition f64_of_lit (m : Z) (e : option Z) : option f64 :=
  let neg := m <? 0 in
  match lit_ratio m e with
  | FOver => None
  | FZero => Some (F64 neg 0 0)
  | FRat num den =>
      if (den =? 1) && (num <? 2 ^ 53) then Some (F64 neg num 0)
      else match round_f64 num den with Some (q, sh) => Some (F64 neg q sh) | None => None end
  end.

(* Go `int(f)` on amd64 (CVTTSD2SQ): truncation toward zero; anything outside int64 gives -2^63 *)
Definition f64_to_int (f : f64) : Z :=
  let '(F64 neg q sh) := f in
  let n := if 0 <=? sh then (if 11 <? sh then 2 ^ 63 else q * 2 ^ sh) else (if sh <? -1100 then 0 else q / 2 ^ (- sh)) in
  if 2 ^ 63 <=? n then - 2 ^ 63 else if neg then - n else n.

(* ---- shortest decimal that reads back as the same binary64 (strconv 'g', precision -1) *)
Definition p10 (e : Z) : Z := if 0 <=? e then 10 ^ e else 1.
Fixpoint fix_dp (fuel : nat) (V D dp : Z) : Z :=   (* smallest dp with V/D < 10^dp *)
  match fuel with
  | O => dp
  | S k =>
      if negb (V * p10 (- dp) <? D * p10 dp) then fix_dp k V D (dp + 1)
      else if V * p10 (- (dp - 1)) <? D * p10 (dp - 1) then fix_dp k V D (dp - 1)
      else dp
  end.

Fixpoint strip0 (fuel : nat) (c : Z) : Z :=
  match fuel with O => c | S k => if (c mod 10 =? 0) && negb (c =? 0) then strip0 k (c / 10) else c end.

(* search n = i+1, i+2, ... digits; returns (digits as an integer without trailing zeros, dp) *)
Fixpoint shortest_loop (fuel : nat) (n : Z) (V LO HI D dp : Z) (incl : bool) : Z * Z :=
  match fuel with
  | O => (strip0 40 V, dp)   (* not reached: 17 digits always suffice *)
  | S k =>
      let p := dp - n in
      let up := p10 p in let dn := p10 (- p) in          (* 10^p = up / dn *)
      let c := (V * dn) / (D * up) in
      let Ad := c * D * up in let Au := (c + 1) * D * up in
      let bV := V * dn in let bLO := LO * dn in let bHI := HI * dn in
      let okd := if incl then bLO <=? Ad else bLO <? Ad in
      let oku := if incl then Au <=? bHI else Au <? bHI in
      let pick (c' : Z) := if c' =? 10 ^ n then (1, dp + 1) else (strip0 40 c', dp) in
      if okd && oku then
        (if bV - Ad <? Au - bV then pick c else if Au - bV <? bV - Ad then pick (c + 1) else if Z.even c then pick c else pick (c + 1))
      else if okd then pick c
      else if oku then pick (c + 1)
      else shortest_loop k (n + 1) V LO HI D dp incl
  end.

Definition shortest (q sh : Z) : Z * Z :=
  let k := if sh <? 2 then 2 - sh else 0 in
  let S := sh + k in
  let D := 2 ^ k in
  let V := q * 2 ^ S in
  let HI := V + 2 ^ (S - 1) in
  let LO := if (q =? 2 ^ 52) && (-1074 <? sh) then V - 2 ^ (S - 2) else V - 2 ^ (S - 1) in
  let est := ((Z.log2 V - k) * 30103) / 100000 + 1 in
  let dp := fix_dp 6 V D est in
  shortest_loop 18 1 V LO HI D dp (Z.even q).

Fixpoint rep0 (n : nat) : string := match n with O => EmptyString | S k => String "0"%char (rep0 k) end.
Definition take (n : nat) (s : string) : string := substring 0 n s.
Definition drop (n : nat) (s : string) : string := substring n (length s - n) s.

(* fmt %v of a float64 = strconv 'g' shortest: %e when exp < -4 || exp >= 21 ... in fmt the threshold for
   the shortest form is 6 (observed: 123456 -> "123456", 1000000 -> "1e+06") *)
Definition fmt_f64 (f : f64) : string :=
  let '(F64 neg q sh) := f in
  let sign := if neg then "-"%string else EmptyString in
  if q =? 0 then (sign ++ "0")%string else
  let '(c, dp) := shortest q sh in
  let ds := zstr c in
  let nd := Z.of_nat (length ds) in
  let ex := dp - 1 in
  if (ex <? -4) || (6 <=? ex) then
    let mant := match ds with String d EmptyString => String d EmptyString | String d r => String d (String "."%char r) | EmptyString => EmptyString end in
    let ea := zstr (Z.abs ex) in
    let es := if ex <? 0 then "-"%string else "+"%string in
    let pad := if Z.abs ex <? 10 then "0"%string else EmptyString in
    (sign ++ mant ++ "e" ++ es ++ pad ++ ea)%string
  else if dp <=? 0 then (sign ++ "0." ++ rep0 (Z.to_nat (- dp)) ++ ds)%string
  else if nd <=? dp then (sign ++ ds ++ rep0 (Z.to_nat (dp - nd)))%string
  else (sign ++ take (Z.to_nat dp) ds ++ "." ++ drop (Z.to_nat dp) ds)%string.

(* ------------------------------------------------------------------ object helpers *)
(* struct field lookup: the LAST occurrence of a key decides (duplicate keys are outside the generated corpus) *)
Fixpoint jfield (k : string) (l : list (string * ajson)) : option ajson :=
  match l with
  | [] => None
  | (k', v) :: r => match jfield k r with Some x => Some x | None => if String.eqb k k' then Some v else None end
  end.

(* Go map[string]T filled in document order (later key overwrites), printed sorted by key *)
Fixpoint minsert {A} (k : string) (v : A) (m : list (string * A)) : list (string * A) :=
  match m with
  | [] => [(k, v)]
  | (k', v') :: r =>
      match String.compare k k' with
      | Lt => (k, v) :: m
      | Eq => (k, v) :: r
      | Gt => (k', v') :: minsert k v r
      end
  end.
Definition mof {A} (l : list (string * A)) : list (string * A) := fold_left (fun m kv => minsert (fst kv) (snd kv) m) l [].
