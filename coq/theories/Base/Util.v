(* Small shared library: string-keyed association maps (first binding wins), sums over lists. *)
From Coq Require Import List ZArith String Bool Lia.
Import ListNotations.
Open Scope Z_scope.

Definition str := string.

(* ---------- association maps with a boolean key equality ---------- *)
Section Assoc.
  Context {K V : Type} (keqb : K -> K -> bool).

  Fixpoint aget (m : list (K * V)) (k : K) : option V :=
    match m with
    | [] => None
    | (k', v) :: r => if keqb k' k then Some v else aget r k
    end.

  (* replace the value of an existing key in place, or append a new binding at the end *)
  Fixpoint aset (m : list (K * V)) (k : K) (v : V) : list (K * V) :=
    match m with
    | [] => [(k, v)]
    | (k', v') :: r => if keqb k' k then (k', v) :: r else (k', v') :: aset r k v
    end.

  Fixpoint adel (m : list (K * V)) (k : K) : list (K * V) :=
    match m with
    | [] => []
    | (k', v') :: r => if keqb k' k then adel r k else (k', v') :: adel r k
    end.

  Definition amem (m : list (K * V)) (k : K) : bool :=
    match aget m k with Some _ => true | None => false end.

  Definition akeys (m : list (K * V)) : list K := map fst m.
End Assoc.

Definition zsum (l : list Z) : Z := fold_right Z.add 0 l.

Lemma zsum_app a b : zsum (a ++ b) = zsum a + zsum b.
Proof. induction a as [|x xs IH]; simpl; [reflexivity|]. rewrite IH. lia. Qed.

Definition opt_default {A} (d : A) (o : option A) : A := match o with Some x => x | None => d end.


Definition pair_eqb (a b : str * str) : bool := (String.eqb (fst a) (fst b) && String.eqb (snd a) (snd b))%bool.

Lemma pair_eqb_eq a b : pair_eqb a b = true <-> a = b.
Proof.
  destruct a as [a1 a2], b as [b1 b2]; unfold pair_eqb; simpl.
  rewrite andb_true_iff, !String.eqb_eq. split; [intros [-> ->]; reflexivity | intros H; inversion H; auto].
Qed.

Lemma pair_eqb_refl a : pair_eqb a a = true.
Proof. apply pair_eqb_eq; reflexivity. Qed.

Lemma pair_eqb_neq a b : pair_eqb a b = false <-> a <> b.
Proof. split; intros H.
  - intros E. apply pair_eqb_eq in E. congruence.
  - destruct (pair_eqb a b) eqn:E; [apply pair_eqb_eq in E; contradiction | reflexivity]. Qed.
