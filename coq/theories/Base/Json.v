(* Byte-string level models used by the log-hash properties (C09, C10):
     - Go's encoding/json string encoder with HTML escaping on (encoding/json/encode.go: appendString, what
       json.Marshal and json.NewEncoder(..).Encode do), including utf8.DecodeRune's validity table;
     - Go's base64.StdEncoding (what encoding/json does with a []byte) and PostgreSQL's encode(_, 'base64')
       (same alphabet and padding, plus a newline after every 76 output characters: PG doc 9.5, base64 format);
     - PostgreSQL's encode(bytea, 'escape') (PG doc 9.5 / encode.c:esc_encode) and the bytea input conversion of
       the escape format (PG doc 8.4.2 / varlena.c:byteain), which is what `text::bytea` performs (I/O conversion cast).
   Byte strings are lists of Coq [ascii] (one per byte, 0..255). Everything is total and computable. *)
From Coq Require Import List Ascii String NArith Bool Lia.
Import ListNotations.
Open Scope N_scope.

Definition bytes := list ascii.
Definition B (s : string) : bytes := list_ascii_of_string s.
Definition code (c : ascii) : N := N_of_ascii c.
Definition chr (n : N) : ascii := ascii_of_N n.
Definition in_rng (lo hi : N) (c : ascii) : bool := (lo <=? code c) && (code c <=? hi).

Definition bs : ascii := chr 92.     (* backslash *)
Definition dq : ascii := chr 34.     (* double quote *)
Definition nl : ascii := chr 10.     (* newline *)
Definition is_bs (c : ascii) : bool := code c =? 92.

Fixpoint beqb (a b : bytes) : bool :=
  match a, b with
  | [], [] => true
  | x :: a', y :: b' => (code x =? code y) && beqb a' b'
  | _, _ => false
  end.

Definition hexdig (n : N) : ascii := nth (N.to_nat n) (B "0123456789abcdef") "0"%char.

(* ---------------------------------------------------------------- Go: encoding/json string encoder, escapeHTML = true *)
(* bytes below 0x80: htmlSafeSet = 0x20..0x7f except double quote (34), ampersand (38), less (60), greater (62), backslash (92) *)
Definition go_esc_ascii (c : ascii) : bytes :=
  let n := code c in
  if (n =? 34) || (n =? 92) then [bs; c]
  else if n =? 8 then [bs; "b"%char]
  else if n =? 12 then [bs; "f"%char]
  else if n =? 10 then [bs; "n"%char]
  else if n =? 13 then [bs; "r"%char]
  else if n =? 9 then [bs; "t"%char]
  else if (n <? 32) || (n =? 60) || (n =? 62) || (n =? 38) then
    [bs; "u"%char; "0"%char; "0"%char; hexdig (n / 16); hexdig (n mod 16)]
  else [c].

Definition go_safe_ascii (c : ascii) : bool :=
  let n := code c in (32 <=? n) && (n <? 128) && negb ((n =? 34) || (n =? 92) || (n =? 60) || (n =? 62) || (n =? 38)).

Definition cont (c : ascii) : bool := in_rng 128 191 c.

(* utf8.DecodeRuneInString on (b :: r), b >= 0x80: the size of the decoded rune; 1 = RuneError (invalid or truncated) *)
Definition utf8_len (b : ascii) (r : bytes) : nat :=
  let n := code b in
  if in_rng 194 223 b then
    match r with c1 :: _ => if cont c1 then 2%nat else 1%nat | _ => 1%nat end
  else if in_rng 224 239 b then
    match r with
    | c1 :: c2 :: _ =>
      if in_rng (if n =? 224 then 160 else 128) (if n =? 237 then 159 else 191) c1 && cont c2 then 3%nat else 1%nat
    | _ => 1%nat
    end
  else if in_rng 240 244 b then
    match r with
    | c1 :: c2 :: c3 :: _ =>
      if in_rng (if n =? 240 then 144 else 128) (if n =? 244 then 143 else 191) c1 && cont c2 && cont c3 then 4%nat else 1%nat
    | _ => 1%nat
    end
  else 1%nat.

(* U+2028 / U+2029 = E2 80 A8 / E2 80 A9: always escaped as   /   *)
Definition lsps (b : ascii) (r : bytes) : option ascii :=
  match r with
  | c1 :: c2 :: _ => if (code b =? 226) && (code c1 =? 128) && ((code c2 =? 168) || (code c2 =? 169)) then Some (hexdig (code c2 mod 16)) else None
  | _ => None
  end.

Definition go_ufffd : bytes := bs :: B "ufffd".   (* the six characters backslash u f f f d *)
Definition go_u202 : bytes := bs :: B "u202".

(* body of the JSON string; [skip] = continuation bytes of the current rune that were already emitted *)
Fixpoint go_body (skip : nat) (l : bytes) : bytes :=
  match l with
  | [] => []
  | b :: r =>
    match skip with
    | S k => go_body k r
    | O =>
      if code b <? 128 then go_esc_ascii b ++ go_body 0 r
      else match utf8_len b r with
           | 1%nat => go_ufffd ++ go_body 0 r
           | n => match lsps b r with
                  | Some h => go_u202 ++ [h] ++ go_body 2 r
                  | None => firstn n (b :: r) ++ go_body (n - 1) r
                  end
           end
    end
  end.

Definition go_string (s : bytes) : bytes := [dq] ++ go_body 0 s ++ [dq].

(* the strings the encoder emits verbatim: safe ASCII and well-formed multi-byte runes other than U+2028/9 *)
Fixpoint go_verb (skip : nat) (l : bytes) : bool :=
  match l with
  | [] => true
  | b :: r =>
    match skip with
    | S k => go_verb k r
    | O =>
      if code b <? 128 then go_safe_ascii b && go_verb 0 r
      else match utf8_len b r with
           | 1%nat => false
           | n => match lsps b r with Some _ => false | None => go_verb (n - 1) r end
           end
    end
  end.
Definition go_verbatim (s : bytes) : bool := go_verb 0 s.

(* ---------------------------------------------------------------- base64 (RFC 4648 standard alphabet, padded) *)
Definition b64_alphabet : bytes := B "ABCDEFGHIJKLMNOPQRSTUVWXYZabcdefghijklmnopqrstuvwxyz0123456789+/".
Definition b64c (n : N) : ascii := nth (N.to_nat n) b64_alphabet "="%char.

Fixpoint base64 (l : bytes) : bytes :=
  match l with
  | [] => []
  | [a] => let x := code a * 65536 in [b64c (x / 262144); b64c ((x / 4096) mod 64); "="%char; "="%char]
  | [a; b] => let x := code a * 65536 + code b * 256 in [b64c (x / 262144); b64c ((x / 4096) mod 64); b64c ((x / 64) mod 64); "="%char]
  | a :: b :: c :: r =>
    let x := code a * 65536 + code b * 256 + code c in
    b64c (x / 262144) :: b64c ((x / 4096) mod 64) :: b64c ((x / 64) mod 64) :: b64c (x mod 64) :: base64 r
  end.

(* PostgreSQL encode(_, 'base64') (encode.c:pg_base64_encode): a newline once 76 characters have been written on a line *)
Fixpoint wrap (width col : nat) (l : bytes) : bytes :=
  match l with
  | [] => []
  | c :: r => match col with
              | O => [c; nl] ++ wrap width width r
              | S k => c :: wrap width k r
              end
  end.
Definition pg_base64 (l : bytes) : bytes := wrap 75 75 (base64 l).

(* ---------------------------------------------------------------- PostgreSQL bytea: encode(_, 'escape') and the escape input format *)
Definition octdig (n : N) : ascii := chr (48 + n).
Definition bytea_esc1 (c : ascii) : bytes :=
  let n := code c in
  if is_bs c then [bs; bs]
  else if (n =? 0) || (128 <=? n) then [bs; octdig (n / 64); octdig ((n / 8) mod 8); octdig (n mod 8)]
  else [c].
Definition bytea_escape (l : bytes) : bytes := flat_map bytea_esc1 l.

Definition octv (c : ascii) : N := code c - 48.
(* byteain, escape format: two backslashes -> one backslash, backslash + three octal digits (first digit 0..3) -> the
   byte, any other backslash -> error (None: invalid input syntax for type bytea, SQLSTATE 22P02). The hex format
   (backslash x ...) is only recognised at the very start of the text; the texts digested by the trigger start with an
   opening brace or a double quote (see Ledger/Hash.v), so it is not modelled. *)
Fixpoint bytea_in (l : bytes) : option bytes :=
  match l with
  | [] => Some []
  | c :: r =>
    if is_bs c then
      match r with
      | [] => None
      | d :: r1 =>
        if is_bs d then option_map (cons bs) (bytea_in r1)
        else match r1 with
             | e :: f :: r3 =>
               if in_rng 48 51 d && in_rng 48 55 e && in_rng 48 55 f
               then option_map (cons (chr (64 * octv d + 8 * octv e + octv f))) (bytea_in r3)
               else None
             | _ => None
             end
      end
    else option_map (cons c) (bytea_in r)
  end.
