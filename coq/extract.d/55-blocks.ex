From LV Require Import Ledger.Blocks.
NAMES brun uncovered
UNIT blocks
GLUE blocksrun.ml
