From LV Require Import Ledger.Filter.
NAMES flt_list flt_count flt_ref flt_sat flt_emit flt_eval flt_validate flt_aggregate row_of safe_lateral collect_addrs need_segments flt_prefilter
