From LV Require Import Ledger.Page.
NAMES column_report offset_report build_cursor fetch opage_of
