From LV Require Ledger.Conc.
NAMES Ledger.Conc.sched_outcome Ledger.Conc.results Ledger.Conc.committed_vols Ledger.Conc.committed_txs Ledger.Conc.committed_logs Ledger.Conc.g_commits Ledger.Conc.g_ev
UNIT conc
GLUE schedrun.ml
