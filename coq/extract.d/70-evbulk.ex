From LV Require Import Ledger.Events Ledger.Bulk.
NAMES trace_of trace_from check core_bulk core_sched respond tag_seq bres_ok schema_bulk schema_sched sbres_ok
