From LV Require Import Base.Json Ledger.Hash.
NAMES go_string go_verbatim base64 pg_base64 bytea_escape bytea_in go_date pg_date go_preimage sql_preimage
