From LV Require Import Ledger.Import.
NAMES run_script hash_of
