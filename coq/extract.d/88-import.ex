From LV Require Import Ledger.Import Ledger.ImportSchema.
NAMES run_script hash_of sroundtrip
