From LV Require Import Ledger.Reads.
NAMES read_volumes read_aggregated read_accounts read_accounts_expand read_transactions
