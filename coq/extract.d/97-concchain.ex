From LV Require Ledger.ConcChain.
NAMES Ledger.ConcChain.link_outcome Ledger.ConcChain.links Ledger.ConcChain.results Ledger.ConcChain.g_commits Ledger.ConcChain.g_ev
UNIT concchain
GLUE schedchainrun.ml
