From LV Require Import Machine.Syntax Machine.Lex Machine.Sem Machine.TxScriptCore Machine.Vm Machine.Compile Machine.VmRun.
NAMES run all_postings bget valid_address valid_asset lexer_asset parse_portion tx_run compile encode run_program vm_run
UNIT ns
GLUE nsrun.ml
