From LV Require Import Machine.Syntax Machine.Lex Machine.Sem Machine.TxScriptCore.
NAMES run all_postings bget valid_address valid_asset lexer_asset tx_run
UNIT ns
GLUE nsrun.ml
