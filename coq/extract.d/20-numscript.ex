From LV Require Import Machine.Syntax Machine.Lex Machine.Sem.
NAMES run all_postings bget valid_address valid_asset lexer_asset
UNIT ns
GLUE nsrun.ml
