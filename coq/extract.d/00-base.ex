From LV Require Import Machine.Allot Ledger.Types Ledger.Core Ledger.HttpView.
NAMES allocate new_allotment_checked step init_state http_answer_of http_error
