From LV Require Import Machine.Allot Ledger.Types Ledger.Core.
NAMES allocate new_allotment_checked step init_state
