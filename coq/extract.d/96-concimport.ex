From LV Require Ledger.ConcImport.
NAMES Ledger.ConcImport.ioutcome Ledger.ConcImport.iresults Ledger.ConcImport.s_logs Ledger.ConcImport.s_row Ledger.ConcImport.s_commits Ledger.ConcImport.s_ev
UNIT concimp
GLUE schedimprun.ml
