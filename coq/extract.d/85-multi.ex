From LV Require Import Ledger.Multi.
NAMES minit mstep mresult project held_tx_ids
