From LV Require Import Ledger.Template.
NAMES tpl_resolve tpl_overwrite tpl_run_defaults tpl_to_query tpl_normalize tpl_run_plan
