From LV Require Import Base.JsonTree Ledger.Api.
NAMES decode_v2_tx decode_scriptv1 decode_v1_script decode_bulk dec_metadata tx_to_core
