From LV Require Import Ledger.Chart Ledger.SchemaCtrl Ledger.HttpViewSchema.
NAMES unmarshal marshal classify validate_posting valid_chart re_valid_small re_match_small sstep sinit shttp_error
