From LV Require Repl.Model.
NAMES Repl.Model.repl_init Repl.Model.repl_step Repl.Model.repl_settle Repl.Model.repl_find_late Repl.Model.repl_view Repl.Model.repl_started
UNIT repl
GLUE replrun.ml
