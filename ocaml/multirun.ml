(* glue for the several-ledgers model (Ledger/Multi.v): run the global event list with [mstep], print per-ledger traces
   (each ledger's answers and states, computed on its own rows only) and what every kept controller lists *)
open Sexp
open Conv
open Histrun
module M = Model

let run_multi = function
  | L [A "multi"; L evs] ->
    let s = ref M.minit in
    let order = ref [] in                         (* ledger names, creation order *)
    let traces : (string, Sexp.t list) Hashtbl.t = Hashtbl.create 8 in
    let held = ref [] in                          (* (proc, ledger) *)
    let kept = ref [] in
    let dead = ref false in
    let add name x = Hashtbl.replace traces name (x :: (try Hashtbl.find traces name with Not_found -> [])) in
    List.iter (fun ev -> if not !dead then match ev with
      | L [A "mk"; name; bucket; feat; p] ->
        s := M.mstep !s (M.MCreate (zarg p, str name, str bucket, features_of feat));
        order := !order @ [atom name];
        Hashtbl.replace traces (atom name) []
      | L [A "hold"; p; name] ->
        s := M.mstep !s (M.MOpen (zarg p, str name));
        let k = (int_of_string (atom p), atom name) in
        if not (List.mem k !held) then held := k :: !held
      | L [A "schema"; name; p; _] ->            (* schema rows are outside the model: the store is opened (flag recomputed), nothing else *)
        s := M.mstep !s (M.MOpen (zarg p, str name))
      | L [A "op"; name; p; h; L [now; op]] ->
        if atom h <> "1" then s := M.mstep !s (M.MOpen (zarg p, str name));
        let o = op_of op in
        (match M.mresult !s (str name) (zarg now) o with
         | None -> failwith "operation on an unknown ledger"
         | Some M.SPanic -> add (atom name) (L [L [A "panic"]]); dead := true
         | Some (M.SR (_, r)) ->
           s := M.mstep !s (M.MOp (str name, zarg now, o));
           (match M.project !s (str name) with
            | Some e -> add (atom name) (L [result_sx r; state_sx e.M.le_state])
            | None -> failwith "ledger vanished");
           let ks = List.sort compare !held in
           kept := L (List.map (fun (p, n) ->
               let ids = List.sort zcmp (M.held_tx_ids !s (coqz_of_string (string_of_int p)) (chars_of_string n)) in
               L [A (string_of_int p); S n; L (List.map zout ids)]) ks) :: !kept)
      | _ -> failwith "bad event") evs;
    L [A "mtrace";
       L (List.map (fun n -> L [S n; L [A "trace"; L (List.rev (Hashtbl.find traces n))]]) !order);
       L [A "kept"; L (List.rev !kept)]]
  | _ -> failwith "bad multi case"

let () = register "multi" run_multi
