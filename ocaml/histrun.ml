(* glue for the ledger-level history model (Ledger/Core.v): parse a history, run [step], print the trace *)
open Sexp
open Conv
module M = Model

let str x = chars_of_string (atom x)
let qs (l : char list) = S (string_of_chars l)
let bool_of x = atom x = "1"

let meta_of x = List.map (fun kv -> match kv with L [k; v] -> (str k, str v) | _ -> failwith "bad kv") (lst x)
let posting_of = function
  | L [s; d; a; n] -> { M.p_src = str s; M.p_dst = str d; M.p_asset = str a; M.p_amt = zarg n }
  | _ -> failwith "bad posting"
let target_of = function
  | L [A "acc"; a] -> M.TAcc (str a)
  | L [A "tx"; id] -> M.TTx (zarg id)
  | _ -> failwith "bad target"

let input_of = function
  | L [A "create"; ps; ts; rf; md; amd; force] ->
    M.ICreate (List.map posting_of (lst ps), (if atom ts = "nil" then None else Some (zarg ts)), str rf, meta_of md,
               List.map (function L [a; m] -> (str a, meta_of m) | _ -> failwith "bad accmeta") (lst amd), bool_of force)
  | L [A "script"; ps; ts; rf; md; amd; force; smd; samd] ->
    let accmeta x = List.map (function L [a; m] -> (str a, meta_of m) | _ -> failwith "bad accmeta") (lst x) in
    M.IScript (List.map posting_of (lst ps), (if atom ts = "nil" then None else Some (zarg ts)), str rf, meta_of md,
               accmeta amd, bool_of force, meta_of smd, accmeta samd)
  | L [A "revert"; id; force; ateff; md] -> M.IRevert (zarg id, bool_of force, bool_of ateff, meta_of md)
  | L [A "setmeta"; t; md] -> M.ISetMeta (target_of t, meta_of md)
  | L [A "delmeta"; t; k] -> M.IDelMeta (target_of t, str k)
  | _ -> failwith "bad input"

let op_of = function
  | L [A "op"; i; ik; dry] -> { M.o_in = input_of i; M.o_ik = str ik; M.o_dry = bool_of dry }
  | _ -> failwith "bad op"

let features_of = function
  | L [A "feat"; a; b; c; d; e] -> { M.f_moves = bool_of a; M.f_pcev = bool_of b; M.f_acc_hist = bool_of c; M.f_tx_hist = bool_of d; M.f_hash = bool_of e }
  | _ -> failwith "bad features"

let cmp_str (a : char list) (b : char list) = compare (string_of_chars a) (string_of_chars b)
let sort_meta m = List.sort (fun (a, _) (b, _) -> cmp_str a b) m
let meta_sx m = L (List.map (fun (k, v) -> L [qs k; qs v]) (sort_meta m))
let volmap_sx (m : ((char list * char list) * (M.z * M.z)) list) =
  let m = List.sort (fun ((a1, c1), _) ((a2, c2), _) -> let c = cmp_str a1 a2 in if c <> 0 then c else cmp_str c1 c2) m in
  L (List.map (fun ((a, c), (i, o)) -> L [qs a; qs c; zout i; zout o]) m)
let optz = function None -> A "nil" | Some z -> zout z
let b01 b = A (if b then "1" else "0")
let posting_sx p = L [qs p.M.p_src; qs p.M.p_dst; qs p.M.p_asset; zout p.M.p_amt]
let zcmp a b = BigZ.compare (z_of_coqz a) (z_of_coqz b)

let err_name = function
  | M.EInsufficientFunds -> "insufficient_funds" | M.EReferenceConflict -> "reference_conflict"
  | M.EIdempotencyInput -> "idempotency_input" | M.EAlreadyReverted -> "already_reverted"
  | M.ENotFound -> "not_found" | M.ENoPostings -> "no_postings"
  | M.EMetadataOverride -> "metadata_override"

let result_sx = function
  | M.ROk (l, t, hit) -> L [A "ok"; zout l; optz t; b01 hit]
  | M.RErr e -> L [A "err"; A (err_name e)]

let payload_type = function
  | M.PNewTx _ -> "NEW_TRANSACTION" | M.PRevert _ -> "REVERTED_TRANSACTION" | M.PSetMeta _ -> "SET_METADATA" | M.PDelMeta _ -> "DELETE_METADATA"

(* the transaction read path: effective volumes come from the moves table (last move per account/asset), not from the value frozen at commit *)
let tx_pcev_now (s : M.state) (t : M.tx) =
  match t.M.t_pcev with
  | None -> A "nil"
  | Some _ ->
    let tbl = Hashtbl.create 8 in
    List.iter (fun m -> if zcmp m.M.m_tx t.M.t_id = 0 then
                  match m.M.m_pcev with Some v -> Hashtbl.replace tbl (m.M.m_acc, m.M.m_asset) v | None -> ()) s.M.s_moves;
    volmap_sx (Hashtbl.fold (fun k v acc -> (k, v) :: acc) tbl [])

let state_sx (s : M.state) =
  let txs = List.sort (fun a b -> zcmp a.M.t_id b.M.t_id) s.M.s_txs in
  let accs = List.sort (fun a b -> cmp_str a.M.a_addr b.M.a_addr) s.M.s_accounts in
  let ah = List.sort (fun a b -> let c = cmp_str a.M.ah_addr b.M.ah_addr in if c <> 0 then c else zcmp a.M.ah_rev b.M.ah_rev) s.M.s_ahist in
  let th = List.sort (fun a b -> let c = zcmp a.M.th_tx b.M.th_tx in if c <> 0 then c else zcmp a.M.th_rev b.M.th_rev) s.M.s_thist in
  let logs = List.sort (fun a b -> zcmp a.M.l_id b.M.l_id) s.M.s_logs in
  L [A "state";
     L [A "vols"; volmap_sx s.M.s_vols];
     L [A "txs"; L (List.map (fun t ->
         L [zout t.M.t_id; L (List.map posting_sx t.M.t_postings); meta_sx t.M.t_meta; zout t.M.t_ts; qs t.M.t_ref; zout t.M.t_ins;
            zout t.M.t_upd; optz t.M.t_rev; volmap_sx t.M.t_pcv; tx_pcev_now s t]) txs)];
     L [A "accounts"; L (List.map (fun a -> L [qs a.M.a_addr; meta_sx a.M.a_meta; zout a.M.a_first; zout a.M.a_ins; zout a.M.a_upd]) accs)];
     L [A "moves"; L (List.map (fun m ->
         L [zout m.M.m_tx; qs m.M.m_acc; qs m.M.m_asset; zout m.M.m_amt; b01 m.M.m_src; zout m.M.m_ins; zout m.M.m_eff;
            (let (i, o) = m.M.m_pcv in L [zout i; zout o]);
            (match m.M.m_pcev with None -> A "nil" | Some (i, o) -> L [zout i; zout o])]) s.M.s_moves)];
     L [A "ahist"; L (List.map (fun h -> L [qs h.M.ah_addr; zout h.M.ah_rev; zout h.M.ah_date; meta_sx h.M.ah_meta]) ah)];
     L [A "thist"; L (List.map (fun h -> L [zout h.M.th_tx; zout h.M.th_rev; zout h.M.th_date; meta_sx h.M.th_meta]) th)];
     L [A "logs"; L (List.map (fun l -> L [zout l.M.l_id; A (payload_type l.M.l_payload); zout l.M.l_date; qs l.M.l_ik]) logs)]]

let run_hist = function
  | L [A "hist"; feat; L ops] ->
    let f = features_of feat in
    let rec go s ops acc = match ops with
      | [] -> List.rev acc
      | L [now; op] :: rest ->
        (match M.step f (zarg now) s (op_of op) with
         | M.SPanic -> List.rev (L [L [A "panic"]] :: acc)
         | M.SR (s', r) -> go s' rest (L [result_sx r; state_sx s'] :: acc))
      | _ -> failwith "bad step" in
    L [A "trace"; L (go M.init_state ops [])]
  | _ -> failwith "bad hist case"

let () = register "hist" run_hist

(* TIE-H: the same run, results projected on what an HTTP answer shows (Ledger/HttpView.v [http_answer_of], extracted): status,
   transaction id and hit flag of a success, "<status>:<errorCode>" of an error *)
let z_str z = match zout z with A a -> a | S a -> a | _ -> failwith "zout"
let http_err v e = let (st, c) = M.http_error v e in z_str st ^ ":" ^ string_of_chars c
let answer_sx = function
  | M.HOk (st, t, hit) -> L [A "ok"; zout st; optz t; b01 hit]
  | M.HErr (st, c) -> L [A "err"; S (z_str st ^ ":" ^ string_of_chars c)]
let run_hist_http_v v head = function
  | L [A h; feat; L ops] when h = head ->
    let f = features_of feat in
    let rec go s ops acc = match ops with
      | [] -> List.rev acc
      | L [now; op] :: rest ->
        let o = op_of op in
        (match M.step f (zarg now) s o with
         | M.SPanic -> List.rev (L [L [A "panic"]] :: acc)
         | M.SR (s', r) -> go s' rest (L [answer_sx (M.http_answer_of v o.M.o_in r); state_sx s'] :: acc))
      | _ -> failwith "bad step" in
    L [A "trace"; L (go M.init_state ops [])]
  | _ -> failwith "bad hist case"
let () = register "histh" (run_hist_http_v M.V2 "histh")
let () = register "histh1" (run_hist_http_v M.V1 "histh1")
