(* glue for Ledger/Bulk.v instantiated with the schema-aware controller step (SchemaCtrl.sstep; without schemas it is Core.step):
   (sbulk strict|audit (<prep: (now (schema ..)) | (now (write "v" "" (op ..)))> ...) <now> <atomic> <cont> <parallel> (<perm> ...)
          "<schemaVersion of the bulk>" (<element: now op> ...) <ignored: encoding of the elements>)
   -> (bulk (results (<entry> ...)) <state> <schemas + log versions>)   entries = the JSON response as writeJSONResponse builds it.
   (file name: linked after schemarun.ml / chartrun.ml, whose readers and printers it reuses) *)
open Sexp
open Conv
open Histrun
module M = Model

let action_of = Bulkrun.action_of

(* error classes as the API codes of mapBulkElementError distinguish them: schema-not-found answers NOT_FOUND like a missing
   transaction, a schema validation error answers VALIDATION like altered idempotency inputs *)
let api_class = function
  | M.EBase e -> err_name e
  | M.ESchemaNotFound -> "not_found"
  | M.ESchemaNotSpecified -> "schema_not_specified"
  | M.ESchemaValidation -> "idempotency_input"
  | M.ESchemaAlreadyExists -> "schema_already_exists"

let entry_sx (tag, r) =
  let rt = match tag with Some a -> A a | None -> A "ERROR" in
  match r with
  | M.SBRes (Some (M.SOk (l, t, _))) -> L [A "ok"; zout l; optz t; rt]
  | M.SBRes (Some (M.SErr e)) -> L [A "err"; A (api_class e); rt]
  | M.SBRes None -> L [A "panic"]
  | M.SBCancelled -> L [A "err"; A "cancelled"; rt]

let () = register "bulk" (function
  | L (A "sbulk" :: A mode :: L prep :: now :: atomic :: cont :: parallel :: L perm :: version :: L els :: _) ->
    let rv = Schemarun.rv and rm = Schemarun.rm and f = Schemarun.all_on in
    let m = if mode = "strict" then M.Strict else M.Audit in
    let s0 = List.fold_left (fun ss st -> match st with
        | L [n; i] -> (match M.sstep rv rm f m (zarg n) ss (Schemarun.sinput_of i) with M.SSR (ss', _) -> ss' | M.SSPanic -> ss)
        | _ -> failwith "bad prep") M.sinit prep in
    let es = List.map (function L [_; op] -> op_of op | _ -> failwith "bad element") els in
    let actions = List.map action_of es in
    let v = str version in
    (* results tagged with ElementID, in completion order *)
    let (s', tagged) =
      if bool_of parallel then
        let sched = List.map (fun i -> (nat_of_int (int_of_string (atom i)), false)) perm in
        let ((s', tagged), _) = M.schema_sched rv rm f m (zarg now) v (bool_of cont) s0 es sched in
        (s', tagged)
      else let (s', rs) = M.schema_bulk rv rm f m (zarg now) v (bool_of atomic) (bool_of cont) s0 es in (s', M.tag_seq rs) in
    L [A "bulk"; L [A "results"; L (List.map entry_sx (M.respond M.sbres_ok actions tagged))]; Schemarun.sstate_sx s'; Schemarun.extra_sx s']
  | _ -> failwith "bad bulk case")
