open Sexp
open Conv
(* ---- C21 pagination
   (pages col|off (variant ..) (k ...) (size ...) asc (hist ..)) -> (reports (R ...)), one R per size:
        R = (ok (pages ((k ..) ..)) (more (1 0 ..)) (prev1 (none (k ..) ..)) (back ((k ..) ..))) | (fail)
   (build (size asc pid bottom rev) (row ..)) -> (ok (data ..) more prev next) | (panic)         query = (size asc pid|nil bottom|nil rev)
   (fetch (size asc pid bottom rev) (k ..))   -> (rows ..)
   (opage (size asc offset) (k ..))           -> (ok (data ..) more prev next) | (err)            oquery = (size asc offset) *)
let b01 b = A (if b then "1" else "0")
let barg x = atom x = "1"
let zopt = function A "nil" -> None | x -> Some (zarg x)
let zoptout = function None -> A "nil" | Some z -> zout z
let zl l = L (List.map zout l)
let natarg x = nat_of_int (int_of_string (atom x))
let query = function
  | L [s; a; p; b; r] -> { Model.q_size = natarg s; Model.q_asc = barg a; Model.q_pid = zopt p; Model.q_bottom = zopt b; Model.q_reverse = barg r }
  | _ -> failwith "bad query"
let queryout (q : Model.cquery) =
  L [A (string_of_int (int_of_nat q.Model.q_size)); b01 q.Model.q_asc; zoptout q.Model.q_pid; zoptout q.Model.q_bottom; b01 q.Model.q_reverse]
let oqueryout (q : Model.oquery) =
  L [A (string_of_int (int_of_nat q.Model.o_size)); b01 q.Model.o_asc; zout q.Model.o_offset]
let opt f = function None -> A "none" | Some x -> f x

let () = register "pages" (fun c ->
  match c with
  | L (A "pages" :: A kind :: _ :: L ks :: L sizes :: asc :: _) ->
    let ks = List.map zarg ks in
    let one size =
      let r = (if kind = "col" then Model.column_report else Model.offset_report) ks (natarg size) (barg asc) in
      (match r with
       | None -> L [A "fail"]
       | Some r -> L [A "ok"; L [A "pages"; L (List.map zl r.Model.r_pages)]; L [A "more"; L (List.map b01 r.Model.r_more)];
                      L [A "prev1"; L (List.map (opt zl) r.Model.r_prev1)]; L [A "back"; L (List.map zl r.Model.r_back)]]) in
    L [A "reports"; L (List.map one sizes)]
  | L [A "build"; q; L rows] ->
    (match Model.build_cursor (query q) (List.map zarg rows) with
     | None -> L [A "panic"]
     | Some p -> L [A "ok"; L (A "data" :: List.map zout p.Model.p_data); b01 p.Model.p_has_more; opt queryout p.Model.p_prev; opt queryout p.Model.p_next])
  | L [A "fetch"; q; L ks] -> L (A "rows" :: List.map zout (Model.fetch (List.map zarg ks) (query q)))
  | L [A "opage"; L [s; a; o]; L ks] ->
    (match Model.opage_of (List.map zarg ks) { Model.o_size = natarg s; Model.o_asc = barg a; Model.o_offset = zarg o } with
     | None -> L [A "err"]
     | Some p -> L [A "ok"; L (A "data" :: List.map zout p.Model.op_data); b01 p.Model.op_has_more; opt oqueryout p.Model.op_prev; opt oqueryout p.Model.op_next])
  | _ -> failwith "bad pages case")
