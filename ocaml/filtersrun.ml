(* C20 glue: (filters <hist> <res> <pit|nil> (<entity>...) <filter>)  ->
     ((res <faithful SQL model: flt_list>) (ref <reference evaluator: filter flt_sat>) (where "<printed flt_emit>"))
   The history is ignored here (the entity table was read from the implementation without a filter). *)
open Sexp
open Conv

let cs = chars_of_string
let sc = string_of_chars
let zstr z = string_of_coqz z

let flt_res = function
  | "tx" -> Model.RTx | "acc" -> Model.RAcc | "vol" -> Model.RVol | "agg" -> Model.RAgg | "log" -> Model.RLog
  | s -> failwith ("bad resource " ^ s)

let flt_kv x = match x with L [k; v] -> (cs (atom k), cs (atom v)) | _ -> failwith "bad kv"
let flt_opt f = function A "nil" -> None | x -> Some (f x)

let flt_entity res (x : Sexp.t) : Model.fentity =
  match res, x with
  | "tx", L [id; rf; ts; ins; upd; rev; L meta; L srcs; L dsts] ->
    Model.ETx { Model.ft_id = zarg id; ft_reference = flt_opt (fun r -> cs (atom r)) rf; ft_timestamp = zarg ts; ft_inserted_at = zarg ins;
                ft_updated_at = zarg upd; ft_reverted_at = flt_opt zarg rev; ft_metadata = List.map flt_kv meta;
                ft_sources = List.map (fun a -> cs (atom a)) srcs; ft_destinations = List.map (fun a -> cs (atom a)) dsts }
  | "acc", L [addr; L meta; first; ins; upd; L bals] ->
    Model.EAcc { Model.fa_address = cs (atom addr); fa_metadata = List.map flt_kv meta; fa_first_usage = zarg first; fa_insertion_date = zarg ins;
                 fa_updated_at = zarg upd;
                 fa_balances = List.map (function L [a; b] -> (cs (atom a), zarg b) | _ -> failwith "bad balance") bals }
  | ("vol" | "agg"), L [acc; asset; i; o; L meta; first] ->
    Model.EVol { Model.fv_account = cs (atom acc); fv_asset = cs (atom asset); fv_input = zarg i; fv_output = zarg o;
                 fv_metadata = List.map flt_kv meta; fv_first_usage = zarg first }
  | "log", L [id; date; ty] -> Model.ELog { Model.fl_id = zarg id; fl_date = zarg date; fl_type = cs (atom ty) }
  | _ -> failwith "bad entity"

let flt_op = function
  | "match" -> Model.OMatch | "lt" -> Model.OLt | "gt" -> Model.OGt | "lte" -> Model.OLte | "gte" -> Model.OGte
  | "like" -> Model.OLike | "in" -> Model.OIn | "exists" -> Model.OExists | s -> failwith ("bad op " ^ s)
let flt_key = function
  | L [A "meta"; k] -> Model.KMeta (cs (atom k))
  | L [A "balance"; a] -> Model.KBalance (cs (atom a))
  | A "address" -> Model.KAddress | A "account" -> Model.KAccount | A "source" -> Model.KSource | A "destination" -> Model.KDestination
  | A "id" -> Model.KId | A "reference" -> Model.KReference | A "timestamp" -> Model.KTimestamp | A "inserted_at" -> Model.KInsertedAt
  | A "updated_at" -> Model.KUpdatedAt | A "reverted_at" -> Model.KRevertedAt | A "reverted" -> Model.KReverted
  | A "metadata" -> Model.KMetadata | A "balance_any" -> Model.KBalanceAny | A "first_usage" -> Model.KFirstUsage
  | A "insertion_date" -> Model.KInsertionDate | A "date" -> Model.KDate | A "type" -> Model.KType
  | _ -> failwith "bad key"
let flt_val = function
  | L [A "s"; s] -> Model.VStr (cs (atom s))
  | L [A "i"; z] -> Model.VInt (zarg z)
  | L [A "t"; z] -> Model.VTime (zarg z)
  | L [A "b"; b] -> Model.VBool (atom b = "1")
  | L (A "l" :: l) -> Model.VStrs (List.map (fun s -> cs (atom s)) l)
  | _ -> failwith "bad value"
let rec flt_filter = function
  | L [A "leaf"; o; k; v] -> Model.FLeaf (flt_op (atom o), flt_key k, flt_val v)
  | L (A "and" :: l) -> Model.FAnd (List.map flt_filter l)
  | L (A "or" :: l) -> Model.FOr (List.map flt_filter l)
  | L [A "not"; f] -> Model.FNot (flt_filter f)
  | _ -> failwith "bad filter"

(* ---- printer of the emitted condition: exactly the text ResolveFilter + Builder.Build + bun produce *)
let sqlq s = "'" ^ String.concat "''" (String.split_on_char '\'' s) ^ "'"
let jsons s =
  let b = Buffer.create 16 in
  Buffer.add_char b '"';
  String.iter (fun c -> match c with
      | '"' -> Buffer.add_string b "\\\"" | '\\' -> Buffer.add_string b "\\\\"
      | c -> Buffer.add_char b c) s;
  Buffer.add_char b '"'; Buffer.contents b
(* time.Time.Format(RFC3339Nano) of a UTC instant given in microseconds *)
let rfc3339 (us : BigZ.t) : string =
  let us = BigZ.to_int us in
  let secs = us / 1_000_000 and frac = us mod 1_000_000 in
  let days = secs / 86400 and rem = secs mod 86400 in
  let z = days + 719468 in
  let era = z / 146097 in
  let doe = z - era * 146097 in
  let yoe = (doe - doe / 1460 + doe / 36524 - doe / 146096) / 365 in
  let y = yoe + era * 400 in
  let doy = doe - (365 * yoe + yoe / 4 - yoe / 100) in
  let mp = (5 * doy + 2) / 153 in
  let d = doy - (153 * mp + 2) / 5 + 1 in
  let m = if mp < 10 then mp + 3 else mp - 9 in
  let y = if m <= 2 then y + 1 else y in
  let fr = if frac = 0 then "" else begin
      let s = Printf.sprintf "%06d" frac in
      let n = ref 6 in
      while s.[!n - 1] = '0' do decr n done;
      "." ^ String.sub s 0 !n end in
  Printf.sprintf "%04d-%02d-%02dT%02d:%02d:%02d%sZ" y m d (rem / 3600) (rem mod 3600 / 60) (rem mod 60) fr

let cmp_s = function Model.CEq -> "=" | Model.CLt -> "<" | Model.CGt -> ">" | Model.CLe -> "<=" | Model.CGe -> ">="
let ncol_s = function
  | Model.NId -> "id" | Model.NBalance -> "balance" | Model.NTimestamp -> "timestamp" | Model.NInsertedAt -> "inserted_at"
  | Model.NUpdatedAt -> "updated_at" | Model.NRevertedAt -> "dataset.reverted_at" | Model.NFirstUsage -> "first_usage"
  | Model.NInsertionDate -> "insertion_date" | Model.NDate -> "date"
let ncol_is_time = function Model.NId | Model.NBalance -> false | _ -> true
let addr_name res = match res with "acc" -> "address" | "vol" -> "account" | _ -> "accounts_address"
let scol_s res = function
  | Model.SReference -> "reference" | Model.SAddress -> addr_name res | Model.SAsset -> "asset" | Model.SType -> "type"
let acol_s res = function
  | Model.AAddressArray -> addr_name res ^ "_array" | Model.ASources -> "sources" | Model.ADestinations -> "destinations"
let ocol_s = function Model.OSourcesArrays -> "sources_arrays" | Model.ODestinationsArrays -> "destinations_arrays"

let rec flt_print res (pit : BigZ.t option) (c : Model.sqlcond) : string =
  let p = flt_print res pit in
  match c with
  | Model.CTrue -> "1 = 1"
  | Model.CFalse -> "<false>"
  | Model.CNum (col, o, v) ->
    let lit = if ncol_is_time col then rfc3339 (z_of_coqz v) else zstr v in
    Printf.sprintf "%s %s '%s'" (ncol_s col) (cmp_s o) lit
  | Model.CStrEq (col, v) -> Printf.sprintf "%s = %s" (scol_s res col) (sqlq (sc v))
  | Model.CLike (col, v) -> Printf.sprintf "%s like %s" (scol_s res col) (sqlq (sc v))
  | Model.CStrIn (col, l) -> Printf.sprintf "%s IN (%s)" (scol_s res col) (String.concat ", " (List.map (fun s -> sqlq (sc s)) l))
  | Model.CIsNull col -> ncol_s col ^ " is null"
  | Model.CIsNotNull col -> ncol_s col ^ " is not null"
  | Model.CMetaContains (k, v) -> "metadata @> " ^ sqlq (Printf.sprintf "{%s:%s}" (jsons (sc k)) (jsons (sc v)))
  | Model.CMetaContainsArr (k, l) ->
    "metadata @> " ^ sqlq (Printf.sprintf "{%s:[%s]}" (jsons (sc k)) (String.concat "," (List.map (fun s -> jsons (sc s)) l)))
  | Model.CMetaHasKey k -> Printf.sprintf "metadata -> %s is not null" (sqlq (sc k))
  | Model.CArrContains (col, s) -> Printf.sprintf "%s @> %s" (acol_s res col) (sqlq ("[" ^ jsons (sc s) ^ "]"))
  | Model.CArrAny (col, l) -> Printf.sprintf "%s ?| array[%s]" (acol_s res col) (String.concat "," (List.map (fun s -> sqlq (sc s)) l))
  | Model.CArrLen (col, n) -> Printf.sprintf "jsonb_array_length(%s) = %d" (acol_s res col) (int_of_nat n)
  | Model.CArrAt (col, i, s) ->
    let seg = String.concat "''" (String.split_on_char '\'' (let j = jsons (sc s) in String.sub j 1 (String.length j - 2))) in
    Printf.sprintf "%s @@ ('$[%d] == \"%s\"')::jsonpath" (acol_s res col) (int_of_nat i) seg
  | Model.CObjContains (col, o) ->
    let kvs = List.map (fun (k, v) -> (string_of_int (int_of_nat k), match v with Some s -> jsons (sc s) | None -> "null")) o in
    let kvs = List.sort (fun (a, _) (b, _) -> compare a b) kvs in
    Printf.sprintf "%s @> %s" (ocol_s col)
      (sqlq ("[{" ^ String.concat "," (List.map (fun (k, v) -> jsons k ^ ":" ^ v) kvs) ^ "}]"))
  | Model.CBalSub (asset, o, v) ->
    let asset_c = match asset with Some a -> Printf.sprintf " AND (asset = %s)" (sqlq (sc a)) | None -> "" in
    let sub = (match pit with
      | None -> Printf.sprintf "SELECT input - output as balance FROM \"_default\".accounts_volumes WHERE (accounts_address = dataset.address)%s" asset_c
      | Some t -> Printf.sprintf "SELECT DISTINCT ON (asset) first_value((post_commit_effective_volumes).inputs - (post_commit_effective_volumes).outputs) over (partition by (accounts_address, asset) order by effective_date desc, seq desc) as balance FROM \"_default\".moves WHERE (accounts_address = dataset.address) AND (effective_date <= '%s')%s" (rfc3339 t) asset_c) in
    (match asset with
     | Some _ -> Printf.sprintf "SELECT balance %s '%s' FROM (%s) balance" (cmp_s o) (zstr v) sub
     | None -> Printf.sprintf "exists (SELECT 1 FROM (%s) balance WHERE (balance %s '%s'))" sub (cmp_s o) (zstr v))
  | Model.CAnd (true, l) -> "(" ^ String.concat ") and (" (List.map p l) ^ ")"
  | Model.CAnd (false, l) -> String.concat " and " (List.map p l)
  | Model.COr (true, l) -> "(" ^ String.concat ") or (" (List.map p l) ^ ")"
  | Model.COr (false, l) ->
    let upper = List.exists (function Model.CArrAny _ -> true | _ -> false) l in
    String.concat (if upper then " OR " else " or ") (List.map p l)
  | Model.CNot c -> "not (" ^ p c ^ ")"

(* ---- keys of selected entities, canonical order as the harness prints them *)
let flt_key_of res (e : Model.fentity) : string =
  match e with
  | Model.ETx t -> zstr t.Model.ft_id
  | Model.ELog l -> zstr l.Model.fl_id
  | Model.EAcc a -> quote (sc a.Model.fa_address)
  | Model.EVol v -> "(" ^ quote (sc v.Model.fv_account) ^ " " ^ quote (sc v.Model.fv_asset) ^ ")"
let flt_sorted res keys =
  if res = "tx" || res = "log" then List.sort (fun a b -> BigZ.compare (BigZ.of_string a) (BigZ.of_string b)) keys
  else List.sort compare keys
let flt_agg_keys (sel : Model.fentity list) : string list =
  List.map (fun (a, (i, o)) -> "(" ^ quote (sc a) ^ " " ^ BigZ.to_string (BigZ.sub (z_of_coqz i) (z_of_coqz o)) ^ ")") (Model.flt_aggregate sel)
let flt_keys res sel = flt_sorted res (if res = "agg" then flt_agg_keys sel else List.map (flt_key_of res) sel)

let () = register "filters" (fun c ->
  match c with
  | L [A "filters"; _hist; A res; pit; L ents; f] ->
    let r = flt_res res in
    let pit_z = (match pit with A "nil" -> None | x -> Some (BigZ.of_string (atom x))) in
    let es = List.map (flt_entity res) ents in
    let flt = flt_filter f in
    let lst = Model.flt_list r (pit_z <> None) flt es in
    let res_sx = (match lst with
      | Model.FrOk sel ->
        if res = "agg" then L [A "ok"; L (List.map (fun k -> A k) (flt_keys res sel))]
        else L [A "ok"; L (List.map (fun k -> A k) (flt_keys res sel)); A (string_of_int (List.length sel))]
      | Model.FrInvalid -> L [A "err"; A "invalid"]
      | Model.FrCardinality -> L [A "err"; A "cardinality"]) in
    let ref_sx = L (List.map (fun k -> A k) (flt_keys res (Model.flt_ref r flt es))) in
    let where = (match Model.flt_validate r flt with
      | Model.FvOk -> "(" ^ flt_print res pit_z (Model.flt_emit r flt) ^ ")"
      | _ -> "-") in
    (* push-down DECISION (utils.go: canPushAddressFilterToLateral, collectAddressFilters) *)
    let addrs = Model.collect_addrs flt in
    let b01 b = A (if b then "1" else "0") in
    let push = L [A "push"; b01 (Model.safe_lateral false flt); b01 (Model.need_segments flt);
                  L (List.map (fun a -> S (sc a)) addrs)] in
    L [L [A "res"; res_sx]; L [A "ref"; ref_sx]; L [A "where"; S where]; push]
  | _ -> failwith "bad filters case")
