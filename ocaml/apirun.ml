(* glue for the request-decoder models (Ledger/Api.v, Base/JsonTree.v):
   (apidec <kind> <ajson>)  ->  canonical decoded request | (client_error decode|validation) | (panic)
   ajson ::= null | (b 0|1) | (n m) | (n m e) | (s "text") | (a ajson ...) | (o ("key" ajson) ...) *)
open Sexp
open Conv
module M = Model

let cs (s : string) = chars_of_string s
let qs (l : char list) = S (string_of_chars l)
let b01 b = A (if b then "1" else "0")

let rec json_of = function
  | A "null" -> M.AJNull
  | L [A "b"; v] -> M.AJBool (atom v = "1")
  | L [A "n"; m] -> M.AJNum (zarg m, None)
  | L [A "n"; m; e] -> M.AJNum (zarg m, Some (zarg e))
  | L [A "s"; s] -> M.AJStr (cs (atom s))
  | L (A "a" :: l) -> M.AJArr (List.map json_of l)
  | L (A "o" :: l) -> M.AJObj (List.map (function L [k; v] -> (cs (atom k), json_of v) | _ -> failwith "bad member") l)
  | _ -> failwith "bad ajson"

let rec json_sx = function
  | M.AJNull -> A "null"
  | M.AJBool b -> L [A "b"; b01 b]
  | M.AJNum (m, None) -> L [A "n"; zout m]
  | M.AJNum (m, Some e) -> L [A "n"; zout m; zout e]
  | M.AJStr s -> L [A "s"; qs s]
  | M.AJArr l -> L (A "a" :: List.map json_sx l)
  | M.AJObj l -> L (A "o" :: List.map (fun (k, v) -> L [qs k; json_sx v]) l)

(* ---- the instance of the abstract timestamp parser: RFC 3339 with optional fraction, as time.Parse(time.RFC3339Nano)
   accepts it on the corpus of the tie, rounded half-up to microseconds; result = microseconds since the Unix epoch *)
let parse_time_ml (s : string) : BigZ.t option =
  let n = String.length s in
  let dig i = if i < n && s.[i] >= '0' && s.[i] <= '9' then Some (Char.code s.[i] - 48) else None in
  let num i k = (* k digits at i *)
    let rec go j acc = if j = i + k then Some acc else match dig j with Some d -> go (j + 1) (acc * 10 + d) | None -> None in
    go i 0 in
  let ( >>= ) o f = match o with Some x -> f x | None -> None in
  let lit i c = if i < n && s.[i] = c then Some () else None in
  num 0 4 >>= fun y -> lit 4 '-' >>= fun () -> num 5 2 >>= fun mo -> lit 7 '-' >>= fun () -> num 8 2 >>= fun d ->
  lit 10 'T' >>= fun () -> num 11 2 >>= fun h -> lit 13 ':' >>= fun () -> num 14 2 >>= fun mi -> lit 16 ':' >>= fun () -> num 17 2 >>= fun sec ->
  let leap = (y mod 4 = 0 && y mod 100 <> 0) || y mod 400 = 0 in
  let dim = [| 31; (if leap then 29 else 28); 31; 30; 31; 30; 31; 31; 30; 31; 30; 31 |] in
  if mo < 1 || mo > 12 || d < 1 || d > dim.(mo - 1) || h > 23 || mi > 59 || sec > 59 then None else
  let pos = ref 19 in
  let ns = ref 0 in
  let ok = ref true in
  if !pos < n && (s.[!pos] = '.' || s.[!pos] = ',') then begin
    incr pos;
    let k = ref 0 in
    while !pos < n && dig !pos <> None do
      (match dig !pos with Some dd -> if !k < 9 then ns := !ns * 10 + dd | None -> ());
      incr k; incr pos
    done;
    if !k = 0 then ok := false;
    for _ = !k to 8 do ns := !ns * 10 done
  end;
  if not !ok then None else
  let off =
    if !pos = n - 1 && s.[!pos] = 'Z' then Some 0
    else if !pos = n - 6 && (s.[!pos] = '+' || s.[!pos] = '-') then
      num (!pos + 1) 2 >>= fun oh -> lit (!pos + 3) ':' >>= fun () -> num (!pos + 4) 2 >>= fun om ->
      if oh > 23 || om > 59 then None else Some ((if s.[!pos] = '-' then -1 else 1) * (oh * 3600 + om * 60))
    else None in
  off >>= fun off ->
  (* days from civil (Howard Hinnant) *)
  let y' = if mo <= 2 then y - 1 else y in
  let era = (if y' >= 0 then y' else y' - 399) / 400 in
  let yoe = y' - era * 400 in
  let doy = (153 * (if mo > 2 then mo - 3 else mo + 9) + 2) / 5 + d - 1 in
  let doe = yoe * 365 + yoe / 4 - yoe / 100 + doy in
  let days = era * 146097 + doe - 719468 in
  let secs = days * 86400 + h * 3600 + mi * 60 + sec - off in
  let us = (!ns + 500) / 1000 in
  Some (BigZ.add (BigZ.mul (BigZ.of_int secs) (BigZ.of_int 1000000)) (BigZ.of_int us))

let parse_time (s : char list) : M.z option =
  match parse_time_ml (string_of_chars s) with Some z -> Some (coqz_of_z z) | None -> None

(* ---- the instance of the abstract literal spelling: how the harness (api.go numText) writes a number m * 10^e that is not a
   plain integer literal: positional for -20 <= e < 0, else mantissa + exponent *)
let spell_ml (m : BigZ.t) (e : int) : string =
  if e < 0 && e >= -20 then begin
    let neg = BigZ.sign m < 0 in
    let d = ref (BigZ.to_string (BigZ.abs m)) in
    while String.length !d <= - e do d := "0" ^ !d done;
    let k = String.length !d + e in
    (if neg then "-" else "") ^ String.sub !d 0 k ^ "." ^ String.sub !d k (String.length !d - k)
  end
  else if e mod 2 = 0 then Printf.sprintf "%sE%d" (BigZ.to_string m) e
  else if e > 0 then Printf.sprintf "%se+%d" (BigZ.to_string m) e
  else Printf.sprintf "%se%d" (BigZ.to_string m) e
let spell (m : M.z) (e : M.z) : char list = cs (spell_ml (z_of_coqz m) (BigZ.to_int (z_of_coqz e)))

(* ---- printers *)
let meta_sx (m : (char list * char list) list) = L (List.map (fun (k, v) -> L [qs k; qs v]) m)
let script_sx (s : M.script) = L [A "script"; qs s.M.s_plain; qs s.M.s_template; meta_sx s.M.s_vars]
let optz = function None -> A "nil" | Some z -> zout z
let request_sx (r : M.tx_request) =
  L [A "request";
     L (List.map (fun p -> L [qs p.M.vp_src; qs p.M.vp_dst; qs p.M.vp_asset; zout p.M.vp_amt]) r.M.r_postings);
     script_sx r.M.r_script; optz r.M.r_ts; qs r.M.r_ref; meta_sx r.M.r_meta;
     L (List.map (fun (a, m) -> L [qs a; meta_sx m]) r.M.r_accmeta); qs r.M.r_runtime; b01 r.M.r_force]
let decoded_sx (f : 'a -> Sexp.t) = function
  | M.Ok x -> f x
  | M.ClientError M.EDecode -> L [A "client_error"; A "decode"]
  | M.ClientError M.EValidation -> L [A "client_error"; A "validation"]
  | M.Panic -> L [A "panic"]

let bulk_data_sx = function
  | M.BCreate w -> L [A "create"; decoded_sx request_sx (M.tx_to_core spell w)]
  | M.BAddMeta (t, i, m) -> L [A "addmeta"; qs t; json_sx i; meta_sx m]
  | M.BRevert (i, f, a, m) -> L [A "revert"; zout i; b01 f; b01 a; meta_sx m]
  | M.BDelMeta (t, i, k) -> L [A "delmeta"; qs t; json_sx i; qs k]
let bulk_sx l = L (A "bulk" :: List.map (fun e -> L [qs e.M.b_action; qs e.M.b_ik; bulk_data_sx e.M.b_data]) l)

let () = register "apidec" (fun c ->
  match c with
  | L [A "apidec"; A kind; j] ->
    let j = json_of j in
    (match kind with
     | "v2tx" -> decoded_sx request_sx (M.decode_v2_tx parse_time spell j)
     | "scriptv1" -> decoded_sx script_sx (M.decode_scriptv1 spell j)
     | "v1script" -> decoded_sx script_sx (M.decode_v1_script j)
     | "bulk" -> decoded_sx bulk_sx (M.decode_bulk parse_time j)
     | "meta" -> decoded_sx (fun m -> L [A "meta"; meta_sx m]) (M.dec_metadata j)
     | "time" -> (match j with M.AJStr s -> L [A "time"; optz (parse_time s)] | _ -> failwith "time expects a string")
     | _ -> failwith "unknown kind")
  | _ -> failwith "bad apidec case")
