open Sexp
open Conv
(* ---- schedimp: the C12 scenarios of the schedule harness, on the lock-protocol model Ledger/ConcImport.v
   (sched (scn name fresh hash) (prefix ()) (writers ((op kind mode src dst asset amt allow ref ik inh tx) ...)) (sch w ...))
   -> (c12 (res ..) (commits ..) (logs (id ik) ..) (state s) (ev ..)) *)
type req = { kind : string; ik : string; op : Model.iop }
let req_of = function
  | L [A "op"; A kind; A _mode; src; _dst; _asset; amt; allow; _rf; ik; _inh; _tx] ->
    let n = nat_of_int (int_of_string (atom amt)) in
    let op = (match kind with
      | "import" -> Model.OImport (n, zarg allow)
      | "bulk" -> Model.OWrite (n, false)
      (* a single write: one log; without a prefix only world can pay: any other source fails the funds check *)
      | "create" -> Model.OWrite (nat_of_int 1, atom src <> "world")
      | _ -> failwith "kind") in
    { kind; ik = atom ik; op }
  | _ -> failwith "bad op"
let label_name = function
  | Model.LILock -> "ilock" | Model.LIRow -> "irow" | Model.LILast -> "ilast" | Model.LICommit -> "commit" | Model.LIRollback -> "rollback"
  | Model.LIUnlock -> "iunlock" | Model.LXLock -> "xlock" | Model.LMark -> "mark" | Model.LSetval -> "setval"
let istr n = A (string_of_int (int_of_nat n))
let () = register "schedimp" (fun c ->
  match c with
  | L [A "sched"; L [A "scn"; _; _; A hash]; L [A "prefix"; _]; L [A "writers"; L writers]; L (A "sch" :: sch)] ->
    let reqs = Array.of_list (List.map req_of writers) in
    let g = Model.ioutcome (hash = "1") (List.map (fun r -> r.op) (Array.to_list reqs))
              (List.map (fun x -> nat_of_int (int_of_string (atom x))) sch) in
    let ok id = L [A "ok"; zout id; zout id; A "0"] in
    let res i r = (match r with
      | Model.RPending -> L [A "none"]
      | Model.RImpOk -> L [A "imp"; A "ok"] | Model.RImpNotInit -> L [A "imp"; A "not_initializing"]
      | Model.RImpLogExists -> L [A "imp"; A "log_exists"] | Model.RImpInvalidHash -> L [A "imp"; A "invalid_hash"]
      | Model.RWErr -> L [A "err"; A "insufficient_funds"]
      | Model.RWOk ids -> if reqs.(i).kind = "bulk" then L (A "bulk" :: List.map ok ids) else (match ids with [id] -> ok id | _ -> failwith "ids")) in
    let ik l =
      let w = int_of_nat l.Model.lg_own and k = int_of_nat l.Model.lg_k + 1 in
      if l.Model.lg_imp then "i" ^ string_of_int k
      else if reqs.(w).kind = "bulk" then reqs.(w).ik ^ "." ^ string_of_int k else reqs.(w).ik in
    let logs = List.sort (fun a b -> BigZ.compare (z_of_coqz a.Model.lg_id) (z_of_coqz b.Model.lg_id)) (Model.s_logs g) in
    L [A "c12";
       L (A "res" :: List.mapi res (Model.iresults g));
       L (A "commits" :: List.map istr (Model.s_commits g));
       L (A "logs" :: List.map (fun l -> L [zout l.Model.lg_id; S (ik l)]) logs);
       L [A "state"; A (if Model.s_row g then "in-use" else "initializing")];
       L (A "ev" :: List.map (fun ((w, l), s) -> L [istr w; A (label_name l); A (match s with Model.ISDone -> "done" | Model.ISBlocked -> "blocked")]) (Model.s_ev g))]
  | _ -> failwith "bad sched case")
