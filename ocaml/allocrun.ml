open Sexp
open Conv
(* ---- alloc: (alloc <amt> ((spec n d)|(rem) ...)) -> (ok (parts...)) | (err kind) ---- *)
let () = register "alloc" (fun c ->
  match c with
  | L [A "alloc"; amt; L ps] ->
    let portion = function
      | L [A "spec"; n; d] -> Model.Specific { Model.qnum = zarg n; Model.qden = pos_of_z (BigZ.of_string (atom d)) }
      | L [A "rem"] -> Model.Remaining
      | _ -> failwith "bad portion" in
    (match Model.new_allotment_checked (List.map portion ps) with
     | Model.Inl Model.TwoRemaining -> L [A "err"; A "two_remaining"]
     | Model.Inl Model.Exceeded -> L [A "err"; A "exceeded"]
     | Model.Inl Model.BadPortion -> L [A "err"; A "portion"]
     | Model.Inr a -> L [A "ok"; L (List.map zout (Model.allocate (zarg amt) a))])
  | _ -> failwith "bad alloc case")

