open Sexp
open Conv
(* ---- ns: (ns (decls) (stmts) (given) (balances) (meta)) -> (ok (postings) (txmeta) (accmeta) (balances)) | (err class) | (panic)
   parses the case into Machine/Syntax.v terms, runs Sem.run; rendering of metadata values to the strings
   machine.NewStringFromValue produces (big.Rat.String for portions) and sorting of maps happen here. ---- *)
let cs x = chars_of_string (atom x)
(* portions enter the model as reduced fractions (what ParsePortionSpecific / big.Rat hand to the compiler) *)
let qof n d =
  let n = BigZ.of_string (atom n) and d = BigZ.of_string (atom d) in
  let g = BigZ.gcd n d in let g = if BigZ.sign g = 0 then BigZ.one else g in
  { Model.qnum = coqz_of_z (BigZ.div n g); Model.qden = pos_of_z (BigZ.div d g) }
(* a portion given as text: Lex.parse_portion (machine.ParsePortionSpecific); unparsable text and a zero denominator
   become a portion outside [0,1], which Sem rejects where Go returns the error (compile / invalid vars / resolve) *)
let bad_portion = { Model.qnum = coqz_of_z (BigZ.of_int 2); Model.qden = pos_of_z BigZ.one }
let qnormq (q : Model.q) =
  let n = z_of_coqz q.Model.qnum and d = z_of_pos q.Model.qden in
  let g = BigZ.gcd n d in let g = if BigZ.sign g = 0 then BigZ.one else g in
  { Model.qnum = coqz_of_z (BigZ.div n g); Model.qden = pos_of_z (BigZ.div d g) }
let qtext s = match Model.parse_portion (cs s) with Some q -> qnormq q | None -> bad_portion
let acc = function L [A "alit"; s] -> Model.AccLit (cs s) | L [A "avar"; s] -> Model.AccVar (cs s) | _ -> failwith "acc"
let asset = function L [A "slit"; s] -> Model.AssetLit (cs s) | L [A "svar"; s] -> Model.AssetVar (cs s) | _ -> failwith "asset"
let rec mon = function
  | L [A "mlit"; a; n] -> Model.MonLit (asset a, zarg n)
  | L [A "mvar"; x] -> Model.MonVar (cs x)
  | L [A "madd"; l; r] -> Model.MonAdd (mon l, mon r)
  | L [A "msub"; l; r] -> Model.MonSub (mon l, mon r)
  | _ -> failwith "mon"
let portion = function
  | L [A "pc"; n; d] -> Model.PConst (qof n d) | L [A "pcs"; s] -> Model.PConst (qtext s) | L [A "pv"; x] -> Model.PVar (cs x) | L [A "prem"] -> Model.PRemaining
  | _ -> failwith "portion"
let valexpr = function
  | L [A "vacc"; s] -> Model.VEAcc (cs s) | L [A "vasset"; s] -> Model.VEAsset (cs s) | L [A "vnum"; n] -> Model.VENum (zarg n)
  | L [A "vstr"; s] -> Model.VEStr (cs s) | L [A "vpor"; n; d] -> Model.VEPortion (qof n d) | L [A "vpors"; s] -> Model.VEPortion (qtext s) | L [A "vmon"; m] -> Model.VEMon (mon m)
  | L [A "vvar"; x] -> Model.VEVar (cs x) | _ -> failwith "valexpr"
let rec source = function
  | L [A "sacc"; a; od] ->
    let o = (match od with L [A "odn"] -> Model.OdNone | L [A "odu"; m] -> Model.OdUpTo (mon m) | L [A "odx"] -> Model.OdUnbounded | _ -> failwith "od") in
    Model.SAccount (acc a, o)
  | L [A "smax"; m; s] -> Model.SMaxed (mon m, source s)
  | L (A "sord" :: l) -> Model.SInOrder (List.fold_right (fun s tl -> Model.SCons (source s, tl)) l Model.SNil)
  | _ -> failwith "source"
let vsource = function
  | L [A "vsrc"; s] -> Model.VSrc (source s)
  | L (A "vall" :: l) -> Model.VSrcAllot (List.map (function L [p; s] -> (portion p, source s) | _ -> failwith "vall") l)
  | _ -> failwith "vsource"
let rec dest = function
  | L [A "dacc"; a] -> Model.DAccount (acc a)
  | L [A "dord"; L l; r] ->
    Model.DInOrder (List.fold_right (fun x tl -> match x with L [m; k] -> Model.DMCons (mon m, kod k, tl) | _ -> failwith "dord") l Model.DMNil, kod r)
  | L (A "dall" :: l) ->
    Model.DAllot (List.fold_right (fun x tl -> match x with L [p; k] -> Model.DACons (portion p, kod k, tl) | _ -> failwith "dall") l Model.DANil)
  | _ -> failwith "dest"
and kod = function L [A "kept"] -> Model.Kept | L [A "to"; d] -> Model.To (dest d) | _ -> failwith "kod"
let stmt = function
  | L [A "send"; m; vs; d] -> Model.Send (mon m, vsource vs, dest d)
  | L [A "sendall"; a; s; d] -> Model.SendAll (asset a, source s, dest d)
  | L [A "txmeta"; k; v] -> Model.SetTxMeta (cs k, valexpr v)
  | L [A "accmeta"; a; k; v] -> Model.SetAccMeta (acc a, cs k, valexpr v)
  | L [A "savemon"; m; a] -> Model.SaveMon (mon m, acc a)
  | L [A "saveall"; a; ac] -> Model.SaveAll (asset a, acc ac)
  | L [A "fail"] -> Model.Fail
  | _ -> failwith "stmt"
let ty = function
  | "account" -> Model.TAccount | "asset" -> Model.TAsset | "number" -> Model.TNumber | "string" -> Model.TString
  | "monetary" -> Model.TMonetary | "portion" -> Model.TPortion | _ -> failwith "ty"
let decl = function
  | L [A "decl"; A t; n; o] ->
    let o = (match o with L [A "onone"] -> Model.ONone | L [A "ometa"; a; k] -> Model.OMeta (acc a, cs k)
                         | L [A "obal"; a; s] -> Model.OBalance (acc a, asset s) | _ -> failwith "origin") in
    { Model.vty = ty t; Model.vname = cs n; Model.vorigin = o }
  | _ -> failwith "decl"
let value = function
  | L [A "account"; s] -> Model.VAccount (cs s) | L [A "asset"; s] -> Model.VAsset (cs s) | L [A "number"; n] -> Model.VNumber (zarg n)
  | L [A "string"; s] -> Model.VString (cs s) | L [A "monetary"; a; n] -> Model.VMonetary (cs a, Some (zarg n))
  | L [A "portion"; n; d] -> Model.VPortion (qof n d) | L [A "portions"; s] -> Model.VPortion (qtext s) | _ -> failwith "value"

let str l = string_of_chars l
(* machine.NewStringFromValue *)
let render = function
  | Model.VAccount s | Model.VAsset s | Model.VString s -> str s
  | Model.VNumber n -> string_of_coqz n
  | Model.VMonetary (a, o) -> str a ^ " " ^ (match o with Some n -> string_of_coqz n | None -> "0")
  | Model.VPortion q ->
    let n = z_of_coqz q.Model.qnum and d = z_of_pos q.Model.qden in
    let g = BigZ.gcd n d in
    let g = if BigZ.sign g = 0 then BigZ.one else g in
    BigZ.to_string (BigZ.div n g) ^ "/" ^ BigZ.to_string (BigZ.div d g)

let errname = function
  | Model.ECompile -> "compile" | Model.EInvalidVars -> "invalid_vars" | Model.EMissingMeta -> "missing_metadata"
  | Model.ENegativeAmount -> "negative_amount" | Model.EInsufficient -> "insufficient" | Model.EInvalidScript -> "invalid_script"
  | Model.EScriptFailed -> "script_failed" | Model.EOther -> "other"

let () = register "ns" (fun c ->
  match c with
  | L [A "ns"; L ds; L ss; L gs; L bs; L ms] ->
    let p = { Model.pvars = List.map decl ds; Model.pstmts = List.map stmt ss } in
    let given = List.map (function L [n; v] -> (cs n, value v) | _ -> failwith "given") gs in
    let st = { Model.st_bal = List.map (function L [a; s; n] -> ((cs a, cs s), zarg n) | _ -> failwith "bal") bs;
               Model.st_meta = List.map (function L [a; k; v] -> ((cs a, cs k), value v) | _ -> failwith "meta") ms } in
    (match Model.run p given st with
     | Model.Panic -> L [A "panic"]
     | Model.Err e -> L [A "err"; A (errname e)]
     | Model.Ok r ->
       let posts = List.map (fun (p : Model.npost) -> L [S (str p.Model.psrc); S (str p.Model.pdst); S (str p.Model.passet); zout p.Model.pamt])
           (Model.all_postings r) in
       let tx = List.sort compare (List.map (fun (k, v) -> (str k, render v)) r.Model.rtx) in
       let am = List.sort compare (List.map (fun ((a, k), v) -> (str a, str k, render v)) r.Model.racc) in
       let ini k = (match Model.bget r.Model.rinit k with Some z -> z | None -> Model.Z0) in
       let bl = List.sort compare (List.map (fun ((a, s), z) -> (str a, str s, string_of_coqz (ini (a, s)), string_of_coqz z)) r.Model.rbal) in
       L [A "ok"; L posts; L (List.map (fun (k, v) -> L [S k; S v]) tx);
          L (List.map (fun (a, k, v) -> L [S a; S k; S v]) am);
          L (List.map (fun (a, s, i, f) -> L [S a; S s; A i; A f]) bl)])
  | _ -> failwith "bad ns case")

(* ---- nslex: (lex "s") -> (valid_address valid_asset valid_asset) ---- *)
let () = register "nslex" (fun c ->
  match c with
  | L [A "lex"; s] ->
    let b x = A (if x then "true" else "false") in
    let s = cs s in
    let por = (match Model.parse_portion s with
      | Some q when (BigZ.sign (z_of_coqz q.Model.qnum) >= 0 && BigZ.leq (z_of_coqz q.Model.qnum) (z_of_pos q.Model.qden)) ->
        let q = qnormq q in "ok " ^ string_of_coqz q.Model.qnum ^ "/" ^ BigZ.to_string (z_of_pos q.Model.qden)
      | _ -> "err") in
    L [b (Model.valid_address s); b (Model.valid_asset s); b (Model.lexer_asset s && Model.valid_asset s); S por]
  | _ -> failwith "bad lex case")

(* ---- nstx: (tx <force> ((src dst asset amt)...) ((acc asset bal)...)) -> (ok (postings)) | (err class) | (panic)
   the extracted TxScriptCore.tx_run = Sem.run on the script TxToScriptData's model generates ---- *)
let () = register "nstx" (fun c ->
  match c with
  | L [A "tx"; A force; L ps; L bs] ->
    let post = function L [s; d; a; n] -> { Model.psrc = cs s; Model.pdst = cs d; Model.passet = cs a; Model.pamt = zarg n } | _ -> failwith "posting" in
    let st = { Model.st_bal = List.map (function L [a; s; n] -> ((cs a, cs s), zarg n) | _ -> failwith "bal") bs; Model.st_meta = [] } in
    (match Model.tx_run (force = "true") (List.map post ps) st with
     | Model.Panic -> L [A "panic"]
     | Model.Err e -> L [A "err"; A (errname e)]
     | Model.Ok r ->
       L [A "ok"; L (List.map (fun (p : Model.npost) -> L [S (str p.Model.psrc); S (str p.Model.pdst); S (str p.Model.passet); zout p.Model.pamt])
                       (Model.all_postings r))])
  | _ -> failwith "bad tx case")

(* ---- nsbc: (nsbc <ns case> <real program | (nocompile)>) -> (bc <model-compiled program> <model VM result on the REAL program>) ---- *)
let hex_of_bytes (l : int list) = String.concat "" (List.map (Printf.sprintf "%02x") l)
let bytes_of_hex (s : string) = List.init (String.length s / 2) (fun i -> int_of_string ("0x" ^ String.sub s (2 * i) 2))
let tyname = function
  | Model.TAccount -> "account" | Model.TAsset -> "asset" | Model.TNumber -> "number" | Model.TString -> "string"
  | Model.TMonetary -> "monetary" | Model.TPortion -> "portion"
let qnorm (q : Model.q) =
  let n = z_of_coqz q.Model.qnum and d = z_of_pos q.Model.qden in
  let g = BigZ.gcd n d in let g = if BigZ.sign g = 0 then BigZ.one else g in
  (BigZ.to_string (BigZ.div n g), BigZ.to_string (BigZ.div d g))
let cval_sx = function
  | Model.CAccount s -> L [A "const"; A "account"; S (str s)] | Model.CAsset s -> L [A "const"; A "asset"; S (str s)]
  | Model.CNumber n -> L [A "const"; A "number"; zout n] | Model.CString s -> L [A "const"; A "string"; S (str s)]
  | Model.CPortion q -> let (n, d) = qnorm q in L [A "const"; A "portion"; A n; A d]
  | Model.CRemaining -> L [A "const"; A "remaining"]
let nat_sx n = A (string_of_int (int_of_nat n))
let cres_sx = function
  | Model.KConst c -> cval_sx c
  | Model.KVar (t, x) -> L [A "var"; A (tyname t); S (str x)]
  | Model.KVarMeta (t, x, a, k) -> L [A "varmeta"; A (tyname t); S (str x); nat_sx a; S (str k)]
  | Model.KVarBal (x, a, s) -> L [A "varbal"; S (str x); nat_sx a; nat_sx s]
  | Model.KMon (a, n) -> L [A "mon"; nat_sx a; zout n]
let cprog_sx (cp : Model.cprogram) =
  let bytes = List.map int_of_nat (Model.encode cp.Model.cp_instrs) in
  let nd = List.sort_uniq compare (List.map (fun (a, m) -> (int_of_nat a, int_of_nat m)) cp.Model.cp_needed) in
  L [A "prog"; S (hex_of_bytes bytes); L (List.map cres_sx cp.Model.cp_res);
     L (List.map (fun (a, m) -> L [A (string_of_int a); A (string_of_int m)]) nd)]
let rec decode = function
  | [] -> []
  | 1 :: lo :: hi :: r -> Model.IApush (nat_of_int (lo + 256 * hi)) :: decode r
  | op :: r ->
    (match op with
     | 2 -> Model.IBump | 3 -> Model.IDelete | 4 -> Model.IIadd | 5 -> Model.IIsub | 6 -> Model.IPrint | 7 -> Model.IFail
     | 8 -> Model.IAsset | 9 -> Model.IMonetaryNew | 10 -> Model.IMonetaryAdd | 11 -> Model.IMonetarySub
     | 12 -> Model.IMakeAllotment | 13 -> Model.ITakeAll | 14 -> Model.ITakeAlways | 15 -> Model.ITake | 16 -> Model.ITakeMax
     | 17 -> Model.IFundingAssemble | 18 -> Model.IFundingSum | 19 -> Model.IFundingReverse | 20 -> Model.IRepay
     | 21 -> Model.IAlloc | 22 -> Model.ISend | 23 -> Model.ITxMeta | 24 -> Model.IAccountMeta | 25 -> Model.ISave
     | _ -> failwith "bad opcode") :: decode r
let natarg x = nat_of_int (int_of_string (atom x))
let cval_of = function
  | [A "account"; s] -> Model.CAccount (cs s) | [A "asset"; s] -> Model.CAsset (cs s) | [A "number"; n] -> Model.CNumber (zarg n)
  | [A "string"; s] -> Model.CString (cs s) | [A "portion"; n; d] -> Model.CPortion (qof n d) | [A "remaining"] -> Model.CRemaining
  | _ -> failwith "cval"
let cres_of = function
  | L (A "const" :: r) -> Model.KConst (cval_of r)
  | L [A "var"; A t; x] -> Model.KVar (ty t, cs x)
  | L [A "varmeta"; A t; x; a; k] -> Model.KVarMeta (ty t, cs x, natarg a, cs k)
  | L [A "varbal"; x; a; s] -> Model.KVarBal (cs x, natarg a, natarg s)
  | L [A "mon"; a; n] -> Model.KMon (natarg a, zarg n)
  | _ -> failwith "cres"
let vresult_sx = function
  | Model.Panic -> L [A "panic"]
  | Model.Err e -> L [A "err"; A (errname e)]
  | Model.Ok (r : Model.vresult) ->
    let posts = List.map (fun (p : Model.npost) -> L [S (str p.Model.psrc); S (str p.Model.pdst); S (str p.Model.passet); zout p.Model.pamt]) r.Model.vr_posts in
    let tx = List.sort compare (List.map (fun (k, v) -> (str k, render v)) r.Model.vr_tx) in
    let am = List.sort compare (List.map (fun ((a, k), v) -> (str a, str k, render v)) r.Model.vr_acc) in
    let ini k = (match Model.bget r.Model.vr_init k with Some z -> z | None -> Model.Z0) in
    let bl = List.sort compare (List.map (fun ((a, s), z) -> (str a, str s, string_of_coqz (ini (a, s)), string_of_coqz z)) r.Model.vr_bal) in
    L [A "ok"; L posts; L (List.map (fun (k, v) -> L [S k; S v]) tx);
       L (List.map (fun (a, k, v) -> L [S a; S k; S v]) am);
       L (List.map (fun (a, s, i, f) -> L [S a; S s; A i; A f]) bl)]
let () = register "nsbc" (fun c ->
  match c with
  | L [A "nsbc"; L [A "ns"; L ds; L ss; L gs; L bs; L ms]; real] ->
    let p = { Model.pvars = List.map decl ds; Model.pstmts = List.map stmt ss } in
    let given = List.map (function L [n; v] -> (cs n, value v) | _ -> failwith "given") gs in
    let st = { Model.st_bal = List.map (function L [a; s; n] -> ((cs a, cs s), zarg n) | _ -> failwith "bal") bs;
               Model.st_meta = List.map (function L [a; k; v] -> ((cs a, cs k), value v) | _ -> failwith "meta") ms } in
    let modelprog = (match Model.compile p with None -> L [A "nocompile"] | Some cp -> cprog_sx cp) in
    let res = (match real with
      | L [A "prog"; hx; L rs; L nd] ->
        let cp = { Model.cp_instrs = decode (bytes_of_hex (atom hx)); Model.cp_res = List.map cres_of rs;
                   Model.cp_needed = List.map (function L [a; m] -> (natarg a, natarg m) | _ -> failwith "needed") nd } in
        vresult_sx (Model.run_program cp given st)
      | _ -> L [A "err"; A "compile"]) in
    L [A "bc"; modelprog; res]
  | _ -> failwith "bad nsbc case")
