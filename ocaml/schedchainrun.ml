open Sexp
open Conv
(* ---- schedchain: the C09 scenarios of the schedule harness (atomic bulks racing writes at the advisory-lock boundary), on the
   lock-protocol model Ledger/ConcChain.v instantiated at READ COMMITTED - what the unchanged code asks PostgreSQL for
   (schedchain (scn name fresh hash) (prefix (ops)) (writers ((op kind mode src dst asset amt allow ref ik inh tx) ...)) (sch ...) (psch w ...))
   -> (chain (res ..) (commits ..) (logs (id predecessor) ..) (ev ..))
   prefix: one single write per operation, run to completion; psch: the schedule projected on the model's steps (adv log commit rollback) *)
let req_of = function
  | L [A "op"; A kind; A _mode; _src; _dst; _asset; amt; allow; _rf; _ik; _inh; _tx] ->
    let elems = (match kind with
      | "create" -> [true]
      | "bulk" ->
        (* amt elements; element number allow (1-based, 0 = none) fails before its insert: the bulk stops there and rolls back *)
        let n = int_of_string (atom amt) and k = int_of_string (atom allow) in
        let last = if k = 0 then n else k in
        List.init last (fun i -> not (i + 1 = k))
      | _ -> failwith "kind") in
    { Model.q_iso = Model.RC; Model.q_elems = elems }
  | _ -> failwith "bad op"
let label_name = function Model.LAdv -> "adv" | Model.LLog -> "log" | Model.LCommit -> "commit" | Model.LRollback -> "rollback"
let () = register "schedchain" (fun c ->
  match c with
  | L [A "schedchain"; L [A "scn"; _; _; _]; L [A "prefix"; L prefix]; L [A "writers"; L writers]; L (A "sch" :: _); L (A "psch" :: psch)] ->
    let n = List.length prefix in
    let g = Model.link_outcome (nat_of_int n) (List.map req_of writers) (List.map (fun x -> nat_of_int (int_of_string (atom x))) psch) in
    let drop l = List.filteri (fun i _ -> i >= n) l in
    let res = function
      | Model.RPending -> L [A "none"]
      | Model.ROk ids -> L (A "ok" :: List.map zout ids)
      | Model.RRolledBack -> L [A "rolled_back"] in
    let idx w = A (string_of_int (int_of_nat w - n)) in
    L [A "chain";
       L (A "res" :: List.map res (drop (Model.results g)));
       L (A "commits" :: List.map idx (Model.g_commits g));
       L (A "logs" :: List.map (fun (id, p) -> L [zout id; zout p]) (Model.links g));
       L (A "ev" :: List.map (fun ((w, l), s) -> L [idx w; A (label_name l); A (match s with Model.SDone -> "done" | Model.SBlocked -> "blocked")]) (Model.g_ev g))]
  | _ -> failwith "bad schedchain case")
