(* glue for Ledger/Events.v: (ev <init> <next log id> (<abstract op> ...) <concrete: ignored>) -> (trace ...) *)
open Sexp
open Conv
module M = Model

let wout_of = function
  | A "ok" -> M.WOk | A "fail" -> M.WFail | A "early" -> M.WFailEarly
  | L [A "hit"; id] -> M.WHit (zarg id)
  | L [A "cancel"; logged] -> M.WCancel (atom logged = "1")
  | _ -> failwith "bad write outcome"
let b1 x = atom x = "1"
let eop_of = function
  | L [A "w"; dry; out] -> M.OWrite { M.w_dry = b1 dry; M.w_out = wout_of out }
  | L [A "bulk"; atomic; cont; pre; L outs] ->
    let pre = (match pre with A "ok" -> M.BPOk | A "fail" -> M.BPFail | A "cancel" -> M.BPCancel | _ -> failwith "bad prelude") in
    M.OBulk (b1 atomic, b1 cont, pre, List.map (fun o -> { M.w_dry = false; M.w_out = wout_of o }) outs)
  | L [A "failcommit"; n] -> M.OFailCommit (nat_of_int (int_of_string (atom n)))
  | L [A "cancelcommit"; n] -> M.OCancelCommit (nat_of_int (int_of_string (atom n)))
  | L [A "disarm"] -> M.ODisarm
  | _ -> failwith "bad abstract op"
let act_sx = function
  | M.SqlBegin -> A "begin" | M.SqlCommitOk -> A "commit" | M.SqlCommitFail -> A "commit_fail" | M.SqlRollback -> A "rollback"
  | M.LogAppended id -> L [A "log"; zout id] | M.Publish id -> L [A "pub"; zout id]

let () = register "events" (function
  | L (A "ev" :: init :: next :: L ops :: _) ->
    L (A "trace" :: List.map act_sx (M.trace_from (b1 init) (zarg next) (List.map eop_of ops)))
  | _ -> failwith "bad ev case")
