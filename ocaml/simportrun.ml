(* glue for Ledger/ImportSchema.v (property C11 on ledgers with schemas):
   (importx_schema strict|audit (<now sinput> ...) <import now>)   (sinput as in schemarun.ml)
   -> (importx_schema (import ok (<flag per observable class>)) | (import <error class>)  <state of the copy> <schemas / log versions of the copy>) *)
open Sexp
open Conv
open Histrun
module M = Model

let serr_imp_name = function
  | M.SIBase e -> Importrun.ierr_name e
  | M.SISchemaNotFound -> "schema_not_found"
  | M.SISchemaExists -> "schema_exists"

let wrap (ss : M.sstate) : M.istate = { M.i_s = ss.M.ss_base; M.i_tab = []; M.i_l = M.Initializing; M.i_c = M.Initializing }

let () = register "importx_schema" (function
  | L [A "importx_schema"; A mode; L ops; now] ->
    let m = if mode = "strict" then M.Strict else M.Audit in
    let h = List.map (function L [n; i] -> (zarg n, Schemarun.sinput_of i) | _ -> failwith "bad step") ops in
    let ((a, b), e) = M.sroundtrip Schemarun.rv Schemarun.rm Schemarun.all_on m h (zarg now) in
    let res = match e with
      | Some e -> L [A "import"; A (serr_imp_name e)]
      | None ->
        let fl = (match Importrun.flags (wrap a) (wrap b) with L l -> l | _ -> []) in
        let same_extra = a.M.ss_slogs = b.M.ss_slogs && a.M.ss_logver = b.M.ss_logver in
        let fl = List.mapi (fun i x -> if i = 10 && not same_extra then A "0" else x) fl in
        L [A "import"; A "ok"; L fl; b01 (a.M.ss_schemas = b.M.ss_schemas)] in
    L [A "importx_schema"; res; Schemarun.sstate_sx b; Schemarun.extra_sx b]
  | _ -> failwith "bad importx_schema case")
