(* tiny s-expression reader and printer; strings are double-quoted with backslash escapes and \xHH *)
type t = A of string | S of string | L of t list

let parse (s : string) : t =
  let n = String.length s in
  let pos = ref 0 in
  let rec skip () = if !pos < n && (s.[!pos] = ' ' || s.[!pos] = '\n' || s.[!pos] = '\t') then (incr pos; skip ()) in
  let hex c = match c with
    | '0'..'9' -> Char.code c - 48 | 'a'..'f' -> Char.code c - 87 | 'A'..'F' -> Char.code c - 55
    | _ -> failwith "bad hex" in
  let rec item () =
    skip ();
    if !pos >= n then failwith "unexpected end";
    match s.[!pos] with
    | '(' -> incr pos; let rec items acc = skip ();
               if !pos >= n then failwith "unclosed" else
               if s.[!pos] = ')' then (incr pos; L (List.rev acc)) else items (item () :: acc) in
             items []
    | '"' -> incr pos; let b = Buffer.create 16 in
             let rec go () =
               if !pos >= n then failwith "unclosed string";
               let c = s.[!pos] in
               if c = '"' then incr pos
               else if c = '\\' then begin
                 let d = s.[!pos+1] in
                 if d = 'x' then (Buffer.add_char b (Char.chr (hex s.[!pos+2] * 16 + hex s.[!pos+3])); pos := !pos + 4)
                 else (Buffer.add_char b d; pos := !pos + 2);
                 go () end
               else (Buffer.add_char b c; incr pos; go ()) in
             go (); S (Buffer.contents b)
    | _ -> let st = !pos in
           while !pos < n && (match s.[!pos] with ' ' | '(' | ')' | '\n' | '\t' -> false | _ -> true) do incr pos done;
           A (String.sub s st (!pos - st))
  in
  let r = item () in skip (); if !pos <> n then failwith "trailing input"; r

let quote (s : string) : string =
  let b = Buffer.create (String.length s + 2) in
  Buffer.add_char b '"';
  String.iter (fun c ->
    let k = Char.code c in
    if c = '"' || c = '\\' then (Buffer.add_char b '\\'; Buffer.add_char b c)
    else if k < 32 || k > 126 then Buffer.add_string b (Printf.sprintf "\\x%02x" k)
    else Buffer.add_char b c) s;
  Buffer.add_char b '"'; Buffer.contents b

let rec to_string = function
  | A a -> a
  | S s -> quote s
  | L l -> "(" ^ String.concat " " (List.map to_string l) ^ ")"
