(* glue for the read-side model (Ledger/Reads.v): run a history, then answer the probes *)
open Sexp
open Conv
open Histrun
module M = Model

let optz_of x = if atom x = "nil" then None else Some (zarg x)
let rejected = L [A "rejected"]

(* metadata filters (Reads.mfilter): (match "k" "v") (exists "k") (and a b) (or a b) (not a); nil = no filter *)
let rec mflt_of = function
  | L [A "match"; k; v] -> M.MfMatch (str k, str v)
  | L [A "exists"; k] -> M.MfExists (str k)
  | L [A "and"; a; b] -> M.MfAnd (mflt_of a, mflt_of b)
  | L [A "or"; a; b] -> M.MfOr (mflt_of a, mflt_of b)
  | L [A "not"; a] -> M.MfNot (mflt_of a)
  | _ -> failwith "bad metadata filter"
let mflt_opt = function A "nil" -> None | q -> Some (mflt_of q)

let probe f (s : M.state) = function
  | L [A "vol"; pit; oot; ins] ->
    (match M.read_volumes f s { M.w_pit = optz_of pit; M.w_oot = optz_of oot; M.w_ins = bool_of ins } with
     | None -> rejected | Some v -> L [A "rows"; volmap_sx v])
  | L [A "agg"; pit; ins; acc] ->
    let acc = if atom acc = "" then None else Some (str acc) in
    (match M.read_aggregated f s (optz_of pit) (bool_of ins) acc with
     | None -> rejected
     | Some l -> let l = List.sort (fun (a, _) (b, _) -> cmp_str a b) l in L [A "agg"; L (List.map (fun (c, b) -> L [qs c; zout b]) l)])
  | L [A "accs"; pit] ->
    let rows = List.sort (fun a b -> cmp_str a.M.ar_addr b.M.ar_addr) (M.read_accounts f s (optz_of pit)) in
    L [A "accs"; L (List.map (fun r -> L [qs r.M.ar_addr; meta_sx r.M.ar_meta; zout r.M.ar_first; zout r.M.ar_ins; zout r.M.ar_upd]) rows)]
  | L [A "accvol"; pit; eff] ->
    (match M.read_accounts_expand f s (optz_of pit) (bool_of eff) with
     | None -> rejected
     | Some l -> let l = List.sort (fun (a, _) (b, _) -> cmp_str a b) l in
       L [A "accvol"; L (List.map (fun (a, vm) -> L [qs a; volmap_sx vm]) l)])
  | L [A "txs"; pit] ->
    let rows = List.sort (fun a b -> zcmp a.M.tr_id b.M.tr_id) (M.read_transactions f s (optz_of pit)) in
    L [A "txs"; L (List.map (fun r -> L [zout r.M.tr_id; meta_sx r.M.tr_meta; zout r.M.tr_ts; optz r.M.tr_rev]) rows)]
  | L [A "volq"; pit; oot; ins; g; q] ->
    (match M.read_volumes_q f s { M.w_pit = optz_of pit; M.w_oot = optz_of oot; M.w_ins = bool_of ins } (mflt_opt q) (nat_of_int (int_of_string (atom g))) with
     | None -> rejected | Some v -> L [A "rows"; volmap_sx v])
  | L [A "aggq"; pit; ins; q] ->
    (match M.read_aggregated_q f s (optz_of pit) (bool_of ins) (mflt_of q) with
     | None -> rejected
     | Some l -> let l = List.sort (fun (a, _) (b, _) -> cmp_str a b) l in L [A "agg"; L (List.map (fun (c, b) -> L [qs c; zout b]) l)])
  | L [A "accsq"; pit; q] ->
    let rows = List.sort (fun a b -> cmp_str a.M.ar_addr b.M.ar_addr) (M.read_accounts_q f s (optz_of pit) (mflt_of q)) in
    L [A "accs"; L (List.map (fun r -> L [qs r.M.ar_addr; meta_sx r.M.ar_meta; zout r.M.ar_first; zout r.M.ar_ins; zout r.M.ar_upd]) rows)]
  | _ -> failwith "bad probe"

let run_reads = function
  | L [A "reads"; feat; L ops; L probes] ->
    let f = features_of feat in
    let rec go s = function
      | [] -> Some s
      | L [now; op] :: rest -> (match M.step f (zarg now) s (op_of op) with M.SPanic -> None | M.SR (s', _) -> go s' rest)
      | _ -> failwith "bad step" in
    (match go M.init_state ops with
     | None -> L [A "panic"]
     | Some s -> L [A "answers"; L (List.map (probe f s) probes)])
  | _ -> failwith "bad reads case"

let () = register "reads" run_reads
