open Sexp
open Conv
(* ---- repl: (repl <page-size> <script> (<observed trace>)) -> (accepted (logs n) (delivered-all|not-delivered)) | (rejected "why")
   Trace acceptance for C33: the trace observed on the real Manager/PipelineHandler (one global
   linearisation of the effects on storage / exporter plus begin/end of manager calls, ids as ranks)
   is mapped event by event onto the automaton of Repl/Model.v; every model step must be enabled
   and must emit exactly the observed data.  The only silent step, Handoff, is taken eagerly
   (Model.repl_settle; sound and complete, see Model.v). Stop/reset/restart are mapped with the
   request at the beginning of the manager call and the Halt at its (clear) / end record: the
   handler events observed in between are exactly those the model allows while a stop is pending. *)
exception Reject of string

let zi n = coqz_of_z (BigZ.of_int n)
let iz z = BigZ.to_int (z_of_coqz z)
let ints l = List.map (fun x -> int_of_string (atom x)) l
let rec range a b = if a > b then [] else a :: range (a + 1) b

let () = register "repl" (fun c ->
  match c with
  | L [A "repl"; ps; _script; L trace] ->
    let s = ref (Model.repl_init (zarg ps)) in
    let view () =
      let (((lg, cu), st), ((h, pe), m)), (la, lc) = Model.repl_view !s in
      (iz lg, iz cu, iz st, h, pe, m, la, lc) in
    let settle () = s := Model.repl_settle !s in
    let apply what e =
      let (s', outs) = Model.repl_step !s e in
      if List.exists (function Model.ORefused -> true | _ -> false) outs then
        raise (Reject (what ^ ": not enabled in the model state"));
      s := s'; outs in
    let spawned = ref false and cleared = ref false in
    let page_matches ids = match view () with
      | (_, cu, _, Model.HPush hi, _, _, _, _) -> ids = range (cu + 1) (iz hi)
      | _ -> false in
    let find_lacc ids =
      let (_, _, _, _, _, _, _, lc) = view () in
      let rec go k = function
        | [] -> None
        | (c0, hi) :: tl -> if ids = range (iz c0 + 1) (iz hi) then Some k else go (k + 1) tl in
      go 0 lc in
    let one t =
      match t with
      | L [A "produce"; n] -> ignore (apply "produce" (Model.Produce (zarg n)))
      | L [A "fetch"; c0; k] ->
        settle ();
        (match apply "fetch" Model.Fetch with
         | [Model.OFetch (c1, k1)] when iz c1 = int_of_string (atom c0) && iz k1 = int_of_string (atom k) -> ()
         | [Model.OFetch (c1, k1)] ->
           raise (Reject (Printf.sprintf "ListLogs(id > %s) returned %s logs; the model's handler is at %d and gets %d" (atom c0) (atom k) (iz c1) (iz k1)))
         | _ -> raise (Reject "fetch: unexpected model output"))
      | L (A "ok" :: ids) ->
        let ids = ints ids in
        if page_matches ids then begin
          (match apply "ok" Model.PushOk with
           | [Model.OBatch b] when List.map iz b = ids -> ()
           | _ -> raise (Reject "ok: batch differs from the model's page"));
          settle ()
        end else (match find_lacc ids with
          | Some k -> ignore (apply "late ok" (Model.LateAccept (nat_of_int k)))
          | None -> raise (Reject ("exporter acknowledged batch " ^ String.concat "," (List.map string_of_int ids) ^
                                   " which is neither the running handler's current page nor a page in flight from a halted handler")))
      | L (A "fail" :: ids) ->
        let ids = ints ids in
        if page_matches ids then ignore (apply "fail" Model.PushFail)
        else if find_lacc ids <> None then ()
        else raise (Reject "exporter refused a batch the model's handler is not pushing")
      | L [A "store"; v] ->
        let v = int_of_string (atom v) in
        let (_, _, _, h, pe, _, la, _) = view () in
        (match h, pe with
         | (Model.HIdle | Model.HPush _ | Model.HSend), Some x when iz x = v -> ignore (apply "store" Model.Persist)
         | _ -> (match Model.repl_find_late (zi v) la Model.O with
             | Some k -> ignore (apply "late store" (Model.LatePersist k))
             | None -> raise (Reject (Printf.sprintf "StorePipelineState(%d): no persister holds that value in the model" v))));
        settle ()
      | L [A "stop-begin"] | L [A "restart-begin"] ->
        let (_, _, _, h, _, _, _, _) = view () in
        if h <> Model.HNone then ignore (apply "stop request" Model.StopReq)
      | L [A "stop-end"; A "ok"] | L [A "restart-stopped"; A "ok"] ->
        let (_, _, _, _, _, m, _, _) = view () in
        (match t, m with
         | _, Model.MStopping -> settle (); ignore (apply "halt" Model.Halt)
         | L [A "restart-stopped"; _], Model.MIdle -> ()
         | _ -> raise (Reject "StopPipeline succeeded but no handler was registered in the model"))
      | L [A "stop-end"; A "notfound"] ->
        let (_, _, _, h, _, _, _, _) = view () in
        if h <> Model.HNone then raise (Reject "StopPipeline: not found, but the model has a registered handler")
      | L [A "reset-begin"] -> cleared := false
      | L [A "clear"] ->
        cleared := true;
        ignore (apply "reset" Model.ResetReq);
        let (_, _, _, _, _, m, _, _) = view () in
        if m = Model.MResetting then begin settle (); ignore (apply "halt (reset)" Model.Halt) end
      | L [A "reset-end"; A "ok"] ->
        if not !cleared then raise (Reject "ResetPipeline returned without clearing last_log_id")
      | L [A "start-begin"] -> spawned := false
      | L [A "read"; v] ->
        let (_, _, st, h, _, _, _, _) = view () in
        if st <> int_of_string (atom v) then
          raise (Reject (Printf.sprintf "pipelines row read with last_log_id %s, the model has %d" (atom v) st));
        if h = Model.HNone then begin
          (match apply "start" Model.Start with
           | [Model.OResume r] when iz r = st -> ()
           | _ -> raise (Reject "start: unexpected model output"));
          spawned := true
        end
      | L [A "start-end"; A "ok"] -> if not !spawned then raise (Reject "StartPipeline succeeded on a started pipeline")
      | L [A "start-end"; A "already"] -> if !spawned then raise (Reject "StartPipeline: already started, but the model had no handler")
      | L [A "restart-end"] ->
        let (_, _, _, h, _, _, _, _) = view () in
        if h = Model.HNone then raise (Reject "manager restarted without starting the enabled pipeline")
      | _ -> raise (Reject ("observable outside the model: " ^ to_string t)) in
    (try
       List.iteri (fun i t ->
           try one t with Reject m -> raise (Reject (Printf.sprintf "trace event %d %s: %s" i (to_string t) m))) trace;
       settle ();
       let (lg, cu, _, _, _, _, _, _) = view () in
       L [A "accepted"; L [A "logs"; A (string_of_int lg)];
          L [A (if Model.repl_started !s && cu = lg then "delivered-all" else "not-delivered")]]
     with Reject m -> L [A "rejected"; S m])
  | _ -> failwith "bad repl case")
