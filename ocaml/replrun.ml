open Sexp
open Conv
(* ---- repl: (repl <page-size> <script> (<observed trace>)) -> (accepted (logs n) (delivered-all|not-delivered)) | (rejected "why")
   Trace acceptance for C33: the trace observed on the real Manager/PipelineHandler (one global
   linearisation of the effects on storage / exporter plus begin/end of manager calls, ids as ranks)
   is mapped event by event onto the automaton of Repl/Model.v (the repaired code: stopPipeline waits
   for the persister); every model step must be enabled and must emit exactly the observed data.
   The only silent step, Handoff, is taken eagerly (Model.repl_settle; sound and complete, see
   Model.v).  Stop/reset/restart: the request is placed at the beginning of the manager call, Run's
   return (Halt) as late as possible (just before the operation completes: the handler steps observed
   in between are exactly those the model allows while a stop is pending), the completion (StopDone)
   at the (clear) / end record.  One observation is ambiguous while a stop is pending: an
   acknowledged batch equal to the handler's current page is either that handler's push (its id is
   then handed over and stored before the stop completes) or the page of the un-awaited Accept
   goroutine after Run already returned (never stored); both are tried (depth-first). *)
exception Reject of string

let zi n = coqz_of_z (BigZ.of_int n)
let iz z = BigZ.to_int (z_of_coqz z)
let ints l = List.map (fun x -> int_of_string (atom x)) l
let rec range a b = if a > b then [] else a :: range (a + 1) b

type ctx = { s : Model.state; spawned : bool; cleared : bool }

let view c =
  let (((lg, cu), st), ((h, pe), m)), (la, lc) = Model.repl_view c.s in
  (iz lg, iz cu, iz st, h, pe, m, la, lc)
let settle c = { c with s = Model.repl_settle c.s }
let apply what c e =
  let (s', outs) = Model.repl_step c.s e in
  if List.exists (function Model.ORefused -> true | _ -> false) outs then
    raise (Reject (what ^ ": not enabled in the model state"));
  ({ c with s = s' }, outs)
let app what c e = fst (apply what c e)

let page_matches c ids = match view c with
  | (_, cu, _, Model.HPush hi, _, _, _, _) -> ids = range (cu + 1) (iz hi)
  | _ -> false
let find_lacc c ids =
  let (_, _, _, _, _, _, _, lc) = view c in
  let rec go k = function
    | [] -> None
    | (c0, hi) :: tl -> if ids = range (iz c0 + 1) (iz hi) then Some k else go (k + 1) tl in
  go 0 lc

(* the stop in progress completes: Run returns if it has not yet, the persister must hold nothing *)
let complete what c =
  let c = settle c in
  let (_, _, _, h, _, _, _, _) = view c in
  let c = if h = Model.HDrain then c else app (what ^ " (Run returns)") c Model.Halt in
  app (what ^ " (the stopped handler's persister must have stored what it held)") c Model.StopDone

(* successor contexts, as thunks tried in order *)
let one (c : ctx) (t : Sexp.t) : (unit -> ctx) list =
  match t with
  | L [A "produce"; n] -> [fun () -> app "produce" c (Model.Produce (zarg n))]
  | L [A "fetch"; c0; k] -> [fun () ->
      let c = settle c in
      match apply "fetch" c Model.Fetch with
      | (c', [Model.OFetch (c1, k1)]) when iz c1 = int_of_string (atom c0) && iz k1 = int_of_string (atom k) -> c'
      | (_, [Model.OFetch (c1, k1)]) ->
        raise (Reject (Printf.sprintf "ListLogs(id > %s) returned %s logs; the model's handler is at %d and gets %d" (atom c0) (atom k) (iz c1) (iz k1)))
      | _ -> raise (Reject "fetch: unexpected model output")]
  | L (A "ok" :: ids) ->
    let ids = ints ids in
    let push () =
      match apply "ok" c Model.PushOk with
      | (c', [Model.OBatch b]) when List.map iz b = ids -> settle c'
      | _ -> raise (Reject "ok: batch differs from the model's page") in
    let stray c () =
      match find_lacc c ids with
      | Some k -> app "late ok" c (Model.LateAccept (nat_of_int k))
      | None -> raise (Reject ("exporter acknowledged batch " ^ String.concat "," (List.map string_of_int ids) ^
                               " which is neither the running handler's current page nor a page in flight from a halted handler")) in
    if page_matches c ids then begin
      let (_, _, _, _, _, m, _, _) = view c in
      if m = Model.MIdle then [push]
      else [push; (fun () -> stray (app "halt before a straggler page" c Model.Halt) ())]
    end else [stray c]
  | L (A "fail" :: ids) ->
    let ids = ints ids in
    [fun () ->
      if page_matches c ids then app "fail" c Model.PushFail
      else if find_lacc c ids <> None then c
      else raise (Reject "exporter refused a batch the model's handler is not pushing")]
  | L [A "store"; v] ->
    let v = int_of_string (atom v) in
    [fun () ->
      let (_, _, _, h, pe, _, la, _) = view c in
      let c' = (match h, pe with
        | (Model.HIdle | Model.HPush _ | Model.HSend | Model.HDrain), Some x when iz x = v -> app "store" c Model.Persist
        | _ -> (match Model.repl_find_late (zi v) la Model.O with
            | Some k -> app "late store" c (Model.LatePersist k)
            | None -> raise (Reject (Printf.sprintf "StorePipelineState(%d): no persister of a registered handler holds that value in the model (a store that outlived the operation which stopped its handler?)" v)))) in
      settle c']
  | L [A "stop-begin"] | L [A "restart-begin"] -> [fun () ->
      let (_, _, _, h, _, _, _, _) = view c in
      if h <> Model.HNone then app "stop request" c Model.StopReq else c]
  | L [A "stop-end"; A "ok"] | L [A "restart-stopped"; A "ok"] -> [fun () ->
      let (_, _, _, _, _, m, _, _) = view c in
      match t, m with
      | _, Model.MStopping -> complete "stop" c
      | L [A "restart-stopped"; _], Model.MIdle -> c
      | _ -> raise (Reject "StopPipeline succeeded but no handler was registered in the model")]
  | L [A "stop-end"; A "notfound"] -> [fun () ->
      let (_, _, _, h, _, _, _, _) = view c in
      if h <> Model.HNone then raise (Reject "StopPipeline: not found, but the model has a registered handler") else c]
  | L [A "reset-begin"] -> [fun () ->
      let c = { c with cleared = false } in
      let (_, _, _, h, _, _, _, _) = view c in
      if h <> Model.HNone then app "reset request" c Model.ResetReq else c]
  | L [A "clear"] -> [fun () ->
      let c = { c with cleared = true } in
      let (_, _, _, _, _, m, _, _) = view c in
      if m = Model.MResetting then complete "reset" c else app "reset" c Model.ResetReq]
  | L [A "reset-end"; A "ok"] -> [fun () ->
      if not c.cleared then raise (Reject "ResetPipeline returned without clearing last_log_id") else c]
  | L [A "start-begin"] -> [fun () -> { c with spawned = false }]
  | L [A "read"; v] -> [fun () ->
      let (_, _, st, h, _, _, _, _) = view c in
      if st <> int_of_string (atom v) then
        raise (Reject (Printf.sprintf "pipelines row read with last_log_id %s, the model has %d" (atom v) st));
      if h = Model.HNone then begin
        match apply "start" c Model.Start with
        | (c', [Model.OResume r]) when iz r = st -> { c' with spawned = true }
        | _ -> raise (Reject "start: unexpected model output")
      end else c]
  | L [A "start-end"; A "ok"] -> [fun () -> if not c.spawned then raise (Reject "StartPipeline succeeded on a started pipeline") else c]
  | L [A "start-end"; A "already"] -> [fun () -> if c.spawned then raise (Reject "StartPipeline: already started, but the model had no handler") else c]
  | L [A "restart-end"] -> [fun () ->
      let (_, _, _, h, _, _, _, _) = view c in
      if h = Model.HNone then raise (Reject "manager restarted without starting the enabled pipeline") else c]
  | _ -> [fun () -> raise (Reject ("observable outside the model: " ^ to_string t))]

let () = register "repl" (fun cse ->
  match cse with
  | L [A "repl"; ps; _script; L trace] ->
    let first_reject = ref None in
    let rec go i c = function
      | [] -> Some c
      | t :: tl ->
        let rec alts = function
          | [] -> None
          | f :: rest ->
            (match (try Some (f ()) with Reject m ->
               (if !first_reject = None || fst (Option.get !first_reject) < i then
                  first_reject := Some (i, Printf.sprintf "trace event %d %s: %s" i (to_string t) m));
               None) with
             | Some c' -> (match go (i + 1) c' tl with Some r -> Some r | None -> alts rest)
             | None -> alts rest) in
        alts (one c t) in
    (match go 0 { s = Model.repl_init (zarg ps); spawned = false; cleared = false } trace with
     | Some c ->
       let c = settle c in
       let (lg, cu, _, _, _, _, _, _) = view c in
       L [A "accepted"; L [A "logs"; A (string_of_int lg)];
          L [A (if Model.repl_started c.s && cu = lg then "delivered-all" else "not-delivered")]]
     | None -> L [A "rejected"; S (match !first_reject with Some (_, m) -> m | None -> "?")])
  | _ -> failwith "bad repl case")
