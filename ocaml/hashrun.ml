open Sexp
open Conv
(* ---- hashes: model side of the C09/C10 ties. Byte strings travel as hex atoms (or quoted strings for keys). ----
   (sha HEX)                                   -> HEX          OCaml SHA-256 (self-test of ocaml/sha256.ml)
   (gostr "s")                                 -> (HEX 0|1)    Json.go_string, Json.go_verbatim
   (bytea HEX)                                 -> (HEX-of-escape-text HEX-of-input-conversion|raise HEX-of-pg-base64)
   (date US)                                   -> ("go" "pg")  Hash.go_date, Hash.pg_date (years 1..9999); (godate US) -> "go" (years -9999..99999)
   (gohash PREV TYPE MEMHEX US "ik" "sv" HASH) -> HEX          sha256 (Hash.go_preimage); PREV, HASH = nil | HEX
   (stack OPS (ROW...)) ROW = (TYPE MEMHEX US "ik") -> (hashes HEX|raise ...)  the trigger's chain over the rows *)
let hexs (s : string) : string =
  let b = Buffer.create (2 * String.length s) in
  String.iter (fun c -> Buffer.add_string b (Printf.sprintf "%02x" (Char.code c))) s; Buffer.contents b
let unhex (h : string) : string =
  String.init (String.length h / 2) (fun i -> Char.chr (int_of_string ("0x" ^ String.sub h (2 * i) 2)))
let bytes_arg x = chars_of_string (unhex (atom x))
let str_arg x = chars_of_string (atom x)
let opt_arg x = match x with A "nil" -> None | _ -> Some (bytes_arg x)
let ltype = function
  | "SET_METADATA" -> Model.TSetMeta | "NEW_TRANSACTION" -> Model.TNewTx | "REVERTED_TRANSACTION" -> Model.TRevert
  | "DELETE_METADATA" -> Model.TDelMeta | "INSERTED_SCHEMA" -> Model.TSchema | s -> failwith ("bad log type " ^ s)
let sha (l : char list) : char list = chars_of_string (Sha256.digest (string_of_chars l))
let hexl l = if l = [] then S "" else A (hexs (string_of_chars l))

let strip_seed = function
  | L items -> (match List.rev items with L [A "seed"; _] :: r -> L (List.rev r) | _ -> L items)
  | x -> x

let () = register "hashes" (fun c ->
  match strip_seed c with
  | L [A "sha"; x] -> A (hexs (Sha256.digest (unhex (atom x))))
  | L [A "gostr"; s] -> L [hexl (Model.go_string (str_arg s)); A (if Model.go_verbatim (str_arg s) then "1" else "0")]
  | L [A "bytea"; x] ->
    let b = bytes_arg x in
    let e = Model.bytea_escape b in
    L [hexl e; (match Model.bytea_in e with Some r -> hexl r | None -> A "raise"); hexl (Model.pg_base64 b)]
  | L [A "byteain"; s] -> (match Model.bytea_in (str_arg s) with Some r -> hexl r | None -> A "raise")
  | L [A "date"; us] -> L [S (string_of_chars (Model.go_date (zarg us))); S (string_of_chars (Model.pg_date (zarg us)))]
  | L [A "godate"; us] -> S (string_of_chars (Model.go_date (zarg us)))
  | L [A "gohash"; prev; ty; mem; us; ik; sv; h] ->
    let l = { Model.h_type = ltype (atom ty); Model.h_memento = bytes_arg mem; Model.h_date = zarg us; Model.h_ik = str_arg ik;
              Model.h_sv = str_arg sv; Model.h_hash = opt_arg h } in
    hexl (sha (Model.go_preimage (opt_arg prev) l))
  | L [A "stack"; _; L rows] ->
    let prev = ref None in
    let out = List.map (fun r -> match r with
      | L [ty; mem; us; ik] ->
        let l = { Model.h_type = ltype (atom ty); Model.h_memento = bytes_arg mem; Model.h_date = zarg us; Model.h_ik = str_arg ik;
                  Model.h_sv = []; Model.h_hash = None } in
        (match Model.sql_preimage !prev l with
         | Some p -> let h = sha p in prev := Some h; hexl h
         | None -> A "raise")
      | _ -> failwith "bad row") rows in
    L (A "hashes" :: out)
  | _ -> failwith "bad hashes case")
