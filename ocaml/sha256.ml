(* SHA-256 (FIPS 180-4) on OCaml strings; instantiates the hash Section variable H of the Coq development in the
   model runner. Self-tested against Go's crypto/sha256 by the `hashes` harness (case kind `sha`). *)
let k = [|
  0x428a2f98; 0x71374491; 0xb5c0fbcf; 0xe9b5dba5; 0x3956c25b; 0x59f111f1; 0x923f82a4; 0xab1c5ed5;
  0xd807aa98; 0x12835b01; 0x243185be; 0x550c7dc3; 0x72be5d74; 0x80deb1fe; 0x9bdc06a7; 0xc19bf174;
  0xe49b69c1; 0xefbe4786; 0x0fc19dc6; 0x240ca1cc; 0x2de92c6f; 0x4a7484aa; 0x5cb0a9dc; 0x76f988da;
  0x983e5152; 0xa831c66d; 0xb00327c8; 0xbf597fc7; 0xc6e00bf3; 0xd5a79147; 0x06ca6351; 0x14292967;
  0x27b70a85; 0x2e1b2138; 0x4d2c6dfc; 0x53380d13; 0x650a7354; 0x766a0abb; 0x81c2c92e; 0x92722c85;
  0xa2bfe8a1; 0xa81a664b; 0xc24b8b70; 0xc76c51a3; 0xd192e819; 0xd6990624; 0xf40e3585; 0x106aa070;
  0x19a4c116; 0x1e376c08; 0x2748774c; 0x34b0bcb5; 0x391c0cb3; 0x4ed8aa4a; 0x5b9cca4f; 0x682e6ff3;
  0x748f82ee; 0x78a5636f; 0x84c87814; 0x8cc70208; 0x90befffa; 0xa4506ceb; 0xbef9a3f7; 0xc67178f2 |]

let m32 = 0xffffffff
let rotr x n = ((x lsr n) lor (x lsl (32 - n))) land m32

let digest (msg : string) : string =
  let len = String.length msg in
  let padlen = let r = (len + 9) mod 64 in if r = 0 then 0 else 64 - r in
  let total = len + 9 + padlen in
  let buf = Bytes.make total '\000' in
  Bytes.blit_string msg 0 buf 0 len;
  Bytes.set buf len '\x80';
  let bits = len * 8 in
  for i = 0 to 7 do
    Bytes.set buf (total - 1 - i) (Char.chr ((bits lsr (8 * i)) land 0xff))
  done;
  let h = [| 0x6a09e667; 0xbb67ae85; 0x3c6ef372; 0xa54ff53a; 0x510e527f; 0x9b05688c; 0x1f83d9ab; 0x5be0cd19 |] in
  let w = Array.make 64 0 in
  for blk = 0 to total / 64 - 1 do
    for t = 0 to 15 do
      let o = blk * 64 + t * 4 in
      let b i = Char.code (Bytes.get buf (o + i)) in
      w.(t) <- (b 0 lsl 24) lor (b 1 lsl 16) lor (b 2 lsl 8) lor b 3
    done;
    for t = 16 to 63 do
      let s0 = rotr w.(t-15) 7 lxor rotr w.(t-15) 18 lxor (w.(t-15) lsr 3) in
      let s1 = rotr w.(t-2) 17 lxor rotr w.(t-2) 19 lxor (w.(t-2) lsr 10) in
      w.(t) <- (w.(t-16) + s0 + w.(t-7) + s1) land m32
    done;
    let a = ref h.(0) and b = ref h.(1) and c = ref h.(2) and d = ref h.(3)
    and e = ref h.(4) and f = ref h.(5) and g = ref h.(6) and hh = ref h.(7) in
    for t = 0 to 63 do
      let s1 = rotr !e 6 lxor rotr !e 11 lxor rotr !e 25 in
      let ch = (!e land !f) lxor ((lnot !e) land m32 land !g) in
      let t1 = (!hh + s1 + ch + k.(t) + w.(t)) land m32 in
      let s0 = rotr !a 2 lxor rotr !a 13 lxor rotr !a 22 in
      let maj = (!a land !b) lxor (!a land !c) lxor (!b land !c) in
      let t2 = (s0 + maj) land m32 in
      hh := !g; g := !f; f := !e; e := (!d + t1) land m32;
      d := !c; c := !b; b := !a; a := (t1 + t2) land m32
    done;
    h.(0) <- (h.(0) + !a) land m32; h.(1) <- (h.(1) + !b) land m32; h.(2) <- (h.(2) + !c) land m32; h.(3) <- (h.(3) + !d) land m32;
    h.(4) <- (h.(4) + !e) land m32; h.(5) <- (h.(5) + !f) land m32; h.(6) <- (h.(6) + !g) land m32; h.(7) <- (h.(7) + !hh) land m32
  done;
  let out = Bytes.create 32 in
  Array.iteri (fun i x -> for j = 0 to 3 do Bytes.set out (i * 4 + j) (Char.chr ((x lsr (8 * (3 - j))) land 0xff)) done) h;
  Bytes.to_string out
