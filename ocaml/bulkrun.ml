(* printers for Ledger/Bulk.v instantiated with Core.step (used by importrun.ml; the bulk tie is in xbulkrun.ml). Former case format:
   (bulk <feat> (<prep: now op> ...) <now> <atomic> <cont> <parallel> (<perm> ...) (<element: now op> ...))
   -> (bulk (results (<entry> ...)) <state>)   entries = the JSON response as writeJSONResponse builds it *)
open Sexp
open Conv
open Histrun
module M = Model

let action_of (o : M.op) = match o.M.o_in with
  | M.ICreate _ | M.IScript _ -> "CREATE_TRANSACTION" | M.IRevert _ -> "REVERT_TRANSACTION"
  | M.ISetMeta _ -> "ADD_METADATA" | M.IDelMeta _ -> "DELETE_METADATA"

let entry_sx (tag, r) =
  let rt = match tag with Some a -> A a | None -> A "ERROR" in
  match r with
  | M.BRes (Some (M.ROk (l, t, _))) -> L [A "ok"; zout l; optz t; rt]
  | M.BRes (Some (M.RErr e)) -> L [A "err"; A (err_name e); rt]
  | M.BRes None -> L [A "panic"]
  | M.BCancelled -> L [A "err"; A "cancelled"; rt]

(* the "bulk" command itself lives in xbulkrun.ml (schema-aware executor); these printers are shared with importrun.ml *)
