(* glue for Ledger/Bulk.v instantiated with Core.step:
   (bulk <feat> (<prep: now op> ...) <now> <atomic> <cont> <parallel> (<perm> ...) (<element: now op> ...))
   -> (bulk (results (<entry> ...)) <state>)   entries = the JSON response as writeJSONResponse builds it *)
open Sexp
open Conv
open Histrun
module M = Model

let action_of (o : M.op) = match o.M.o_in with
  | M.ICreate _ -> "CREATE_TRANSACTION" | M.IRevert _ -> "REVERT_TRANSACTION"
  | M.ISetMeta _ -> "ADD_METADATA" | M.IDelMeta _ -> "DELETE_METADATA"

let entry_sx (tag, r) =
  let rt = match tag with Some a -> A a | None -> A "ERROR" in
  match r with
  | M.BRes (Some (M.ROk (l, t, _))) -> L [A "ok"; zout l; optz t; rt]
  | M.BRes (Some (M.RErr e)) -> L [A "err"; A (err_name e); rt]
  | M.BRes None -> L [A "panic"]
  | M.BCancelled -> L [A "err"; A "cancelled"; rt]

let () = register "bulk" (function
  | L [A "bulk"; feat; L prep; now; atomic; cont; parallel; L perm; L els] ->
    let f = features_of feat in
    let s0 = List.fold_left (fun s st -> match st with
        | L [n; op] -> (match M.step f (zarg n) s (op_of op) with M.SR (s', _) -> s' | M.SPanic -> s)
        | _ -> failwith "bad prep") M.init_state prep in
    let es = List.map (function L [_; op] -> op_of op | _ -> failwith "bad element") els in
    let actions = List.map action_of es in
    (* results tagged with ElementID, in completion order *)
    let (s', tagged) =
      if bool_of parallel then
        let sched = List.map (fun i -> (nat_of_int (int_of_string (atom i)), false)) perm in
        let ((s', tagged), _) = M.core_sched f (zarg now) (bool_of cont) s0 es sched in
        (s', tagged)
      else let (s', rs) = M.core_bulk f (zarg now) (bool_of atomic) (bool_of cont) s0 es in (s', M.tag_seq rs) in
    L [A "bulk"; L [A "results"; L (List.map entry_sx (M.respond M.bres_ok actions tagged))]; state_sx s']
  | _ -> failwith "bad bulk case")
