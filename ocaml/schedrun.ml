open Sexp
open Conv
(* ---- sched: (sched (scn name fresh hash) (prefix (ops)) (writers (ops)) (sch w w w ...)) -> (outcome (res ..) (commits ..) (bal ..) (txs ..) (logs ..) (ev ..))
   the model (Ledger/Conc.v) is run on the same prefix, writers and schedule as the real stack *)
let cs s = chars_of_string s
let op_of = function
  | L [A "op"; A kind; A mode; src; dst; asset; amt; allow; rf; ik; inh; tx] ->
    { Model.o_kind = (match kind with "create" -> Model.KCreate | "revert" -> Model.KRevert | _ -> failwith "kind");
      Model.o_mode = (match mode with "plain" -> Model.MPlain | "od" -> Model.MOd | "unb" -> Model.MUnb | "force" -> Model.MForce | _ -> failwith "mode");
      Model.o_src = cs (atom src); Model.o_dst = cs (atom dst); Model.o_asset = cs (atom asset);
      Model.o_amt = zarg amt; Model.o_allow = zarg allow; Model.o_ref = cs (atom rf); Model.o_ik = cs (atom ik);
      Model.o_inh = zarg inh; Model.o_tx = zarg tx }
  | _ -> failwith "bad op"
let err_name = function
  | Model.EInsufficient -> "insufficient_funds" | Model.ERefConflict -> "reference_conflict" | Model.EAlreadyReverted -> "already_reverted"
  | Model.ENotFound -> "not_found" | Model.EIkInput -> "idempotency_input" | Model.EIkConflict -> "idempotency_conflict" | Model.EDeadlock -> "deadlock"
let res_sx = function
  | Model.RNone -> L [A "none"]
  | Model.ROk (l, t, hit) -> L [A "ok"; zout l; zout t; A (if hit then "1" else "0")]
  | Model.RErr e -> L [A "err"; A (err_name e)]
let label_name = function
  | Model.LIk -> "ik" | Model.LRev -> "rev" | Model.LBal -> "bal" | Model.LBal2 -> "bal2" | Model.LVol -> "vol" | Model.LTx -> "tx" | Model.LAdv -> "adv"
  | Model.LLog -> "log" | Model.LCommit -> "commit" | Model.LRollback -> "rollback"
let status_name = function Model.SDone -> "done" | Model.SBlocked -> "blocked" | Model.SDeadlock -> "deadlock"
let istr n = A (string_of_int (int_of_nat n))
let () = register "sched" (fun c ->
  match c with
  | L [A "sched"; L [A "scn"; _; _; A hash]; L [A "prefix"; L prefix]; L [A "writers"; L writers]; L (A "sch" :: sch)] ->
    let g = Model.sched_outcome (hash = "1") (List.map op_of prefix) (List.map op_of writers)
              (List.map (fun x -> nat_of_int (int_of_string (atom x))) sch) in
    let bal = List.map (fun ((a, c), b) -> (string_of_chars a, string_of_chars c, b)) (Model.committed_vols g) in
    let bal = List.sort (fun (a1, c1, _) (a2, c2, _) -> compare (a1, c1) (a2, c2)) bal in
    let txs = List.sort (fun a b -> BigZ.compare (z_of_coqz a.Model.t_id) (z_of_coqz b.Model.t_id)) (Model.committed_txs g) in
    let logs = List.sort (fun a b -> BigZ.compare (z_of_coqz a.Model.l_id) (z_of_coqz b.Model.l_id)) (Model.committed_logs g) in
    L [A "outcome";
       L (A "res" :: List.map res_sx (Model.results g));
       L (A "commits" :: List.map istr (Model.g_commits g));
       L (A "bal" :: List.map (fun (a, c, b) -> L [S a; S c; zout b]) bal);
       L (A "txs" :: List.map (fun t -> L [zout t.Model.t_id; A (if t.Model.t_rev then "1" else "0"); S (string_of_chars t.Model.t_ref)]) txs);
       L (A "logs" :: List.map (fun l -> L [zout l.Model.l_id; S (string_of_chars l.Model.l_ik)]) logs);
       L (A "ev" :: List.map (fun ((w, l), s) -> L [istr w; A (label_name l); A (status_name s)]) (Model.g_ev g))]
  | _ -> failwith "bad sched case")
