(* glue for Ledger/Import.v (properties C11, C12):
   (importx <feat> (<now op> ...) (<action> ...)),  action = (import <drop> <take> <now>) | (write single|bulk|atomic <now> (<now op> ...))
   -> (importx (<result> ...) <state of the copy>)
   result = (import ok (<flag per observable class>)) | (import <error class>) | (write (<op result> ...)) | (write (bulk_error)) *)
open Sexp
open Conv
open Histrun
open Bulkrun
module M = Model

let ierr_name = function
  | M.IENotInitializing -> "not_initializing" | M.IELogExists -> "log_exists" | M.IEInvalidHash -> "invalid_hash"
  | M.IEConcurrent -> "concurrent" | M.IEMissingTx -> "missing_tx" | M.IEReference -> "reference_conflict"
  | M.IEIdempotency -> "idempotency_conflict" | M.IEMalformed -> "malformed"

let action_of_sx = function
  | L [A "resolve"] -> M.AResolve
  | L [A "import_stale"; d; t; now] ->
    let t = int_of_string (atom t) in
    M.AImportStale (nat_of_int (int_of_string (atom d)), (if t < 0 then None else Some (nat_of_int t)), zarg now)
  | L [A "import_shift"; w; now; dl; dt] -> M.AImportShift (atom w = "1", zarg now, zarg dl, zarg dt)
  | L [A "import"; d; t; now] ->
    let t = int_of_string (atom t) in
    M.AImport (nat_of_int (int_of_string (atom d)), (if t < 0 then None else Some (nat_of_int t)), zarg now)
  | L [A "write"; A "single"; _; L ops] -> M.ASingle (List.map (function L [n; op] -> (zarg n, op_of op) | _ -> failwith "bad op") ops)
  | L [A "write"; A "bulk"; now; L ops] -> M.ABulk (zarg now, List.map (function L [_; op] -> op_of op | _ -> failwith "bad op") ops)
  | L [A "write"; A "atomic"; now; L ops] -> M.AAtomic (zarg now, List.map (function L [_; op] -> op_of op | _ -> failwith "bad op") ops)
  (* a tree whose facade does not override BeginTX (before fixes/01-facade-begintx): the harness names the path so *)
  | L [A "write"; A "atomic_unrepaired"; now; L ops] -> M.AAtomicUnrepaired (zarg now, List.map (function L [_; op] -> op_of op | _ -> failwith "bad op") ops)
  | _ -> failwith "bad action"

(* observable classes, in the order of harness/go/vh/importx.go:impClasses *)
let section name st = match state_sx st with
  | L (A "state" :: secs) -> (match List.find (function L [A n; _] -> n = name | _ -> false) secs with L [_; v] -> v | _ -> failwith "section")
  | _ -> failwith "state"
let items v = match v with L l -> l | _ -> failwith "items"
let pick idx v = L (List.map (fun it -> match it with L fs -> L (List.map (fun i -> List.nth fs i) idx) | x -> x) (items v))
let classes (b : M.istate) =
  let s = b.M.i_s in
  let txs = section "txs" s and accs = section "accounts" s and ah = section "ahist" s in
  let revflag v = L (List.map (function L fs -> L (List.mapi (fun i x -> if i = 5 then (match x with A "nil" -> A "0" | _ -> A "1") else x) fs) | x -> x) (items v)) in
  let hashes = List.map (fun l -> (l.M.l_id, M.hash_of b.M.i_tab l.M.l_id)) (List.sort (fun a b -> zcmp a.M.l_id b.M.l_id) s.M.s_logs) in
  [ to_string (section "vols" s);
    to_string (revflag (pick [0; 1; 2; 3; 4; 7; 8; 9] txs));
    to_string (pick [0; 5; 6; 7] txs);
    to_string (pick [0] accs);
    to_string (pick [0; 1] accs);
    to_string (pick [0; 2; 3; 4] accs);
    to_string (section "moves" s);
    to_string (pick [0; 1; 3] ah);
    to_string (pick [0; 1; 2] ah);
    to_string (section "thist" s);
    "";   (* logs: compared structurally, see logs_equal *)
    String.concat "|" (List.map (fun (_, h) -> string_of_chars h) hashes) ]

let logs_equal (a : M.istate) (b : M.istate) =
  let srt s = List.sort (fun x y -> zcmp x.M.l_id y.M.l_id) s.M.i_s.M.s_logs in
  srt a = srt b

let flags a b =
  let ca = classes a and cb = classes b in
  L (List.mapi (fun i (x, y) -> if i = 10 then b01 (logs_equal a b) else b01 (x = y)) (List.combine ca cb))

let opt_result_sx = function Some r -> result_sx r | None -> L [A "panic"]

let ares_sx actions rs =
  let rec go acts rs = match acts, rs with
    | a :: ar, r :: rr ->
      (match r with
       | M.ARes x -> entry_sx ((if M.bres_ok x then Some a else None), x)
       | M.AAborted -> L [A "err"; A "aborted"; A "ERROR"]) :: go ar rr
    | _, _ -> [] in
  go actions rs

let result_sx_of a (act : M.action) = function
  | M.RResolve -> L [A "resolve"]
  | M.RImport (None, b) -> L [A "import"; A "ok"; flags a b]
  | M.RImport (Some e, _) -> L [A "import"; A (ierr_name e)]
  | M.RSingle rs -> L [A "write"; L (List.map opt_result_sx rs)]
  | M.RBulk rs ->
    let ops = (match act with M.ABulk (_, ops) -> ops | _ -> []) in
    L [A "write"; L (List.map entry_sx (M.respond M.bres_ok (List.map action_of ops) (M.tag_seq rs)))]
  | M.RAtomic (M.AResults rs) ->
    let ops = (match act with M.AAtomic (_, ops) | M.AAtomicUnrepaired (_, ops) -> ops | _ -> []) in
    L [A "write"; L (ares_sx (List.map action_of ops) rs)]
  | M.RAtomic M.ACommitFailed -> L [A "write"; L [L [A "bulk_error"]]]

let () = register "importx" (function
  | L [A "importx_s11b"] -> L [A "importx_s11b"]     (* schema scenario: monitor only (Ledger/Core.v has no schemas) *)
  | L [A "importx"; feat; L ops; L script] ->
    let f = features_of feat in
    let h = List.map (function L [n; op] -> (zarg n, op_of op) | _ -> failwith "bad op") ops in
    let sc = List.map action_of_sx script in
    let ((a, b), rs) = M.run_script f h sc in
    L [A "importx"; L (List.map2 (result_sx_of a) sc rs); state_sx b.M.i_s]
  | _ -> failwith "bad importx case")
