open Sexp
open Conv
(* ---- blocks: model side of the C34 tie (Ledger/Blocks.v).
   (blocks (EV...))  EV = (alloc W TYPE MEMHEX US "ik" (src ...)) | (commit W) | (abort W) | (run SIZE)
   -> (blocks ((id previous from_id to_id HASHHEX)...) (uncovered (ids, ascending)))   with H := SHA-256 (ocaml/sha256.ml) *)
let hexs (s : string) : string =
  let b = Buffer.create (2 * String.length s) in
  String.iter (fun c -> Buffer.add_string b (Printf.sprintf "%02x" (Char.code c))) s; Buffer.contents b
let unhex (h : string) : string =
  String.init (String.length h / 2) (fun i -> Char.chr (int_of_string ("0x" ^ String.sub h (2 * i) 2)))
let ltype = function
  | "SET_METADATA" -> Model.TSetMeta | "NEW_TRANSACTION" -> Model.TNewTx | "REVERTED_TRANSACTION" -> Model.TRevert
  | "DELETE_METADATA" -> Model.TDelMeta | "INSERTED_SCHEMA" -> Model.TSchema | s -> failwith ("bad log type " ^ s)
let sha (l : char list) : char list = chars_of_string (Sha256.digest (string_of_chars l))
let nat x = nat_of_int (int_of_string (atom x))

let () = register "blocks" (fun c ->
  match c with
  | L [A "blocks"; L evs] ->
    let ev = function
      | L [A "alloc"; w; ty; mem; us; ik; _] ->
        Model.Alloc (nat w, { Model.h_type = ltype (atom ty); Model.h_memento = chars_of_string (unhex (atom mem)); Model.h_date = zarg us;
                              Model.h_ik = chars_of_string (atom ik); Model.h_sv = []; Model.h_hash = None })
      | L [A "commit"; w] -> Model.Commit (nat w)
      | L [A "abort"; w] -> Model.Abort (nat w)
      | L [A "run"; n] -> Model.RunBlocks (zarg n)
      | _ -> failwith "bad event" in
    let s = Model.brun sha (List.map ev evs) in
    let blk b = L [zout b.Model.k_id; zout b.Model.k_prev; zout b.Model.k_from; zout b.Model.k_to; A (hexs (string_of_chars b.Model.k_hash))] in
    L [A "blocks"; L (List.map blk s.Model.s_blocks); L [A "uncovered"; L (List.map (fun z -> A (BigZ.to_string z)) (List.sort BigZ.compare (List.map z_of_coqz (Model.uncovered s))))]]
  | _ -> failwith "bad blocks case")
