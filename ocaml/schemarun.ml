(* glue for Ledger/SchemaCtrl.v: (shist strict|audit ((now (schema "v" <json> ((name (postings))...)) | (now (write "v" "tpl" (op ...))) ...))
   -> (trace ((result state extra) ...)) in the format of harness/go/vh/schemahist.go *)
open Sexp
open Conv
module M = Model

let rv = M.re_valid_small
let rm = M.re_match_small
let all_on = { M.f_moves = true; M.f_pcev = true; M.f_acc_hist = true; M.f_tx_hist = true; M.f_hash = true }

let serr_name = function
  | M.EBase e -> Histrun.err_name e
  | M.ESchemaNotFound -> "schema_not_found" | M.ESchemaNotSpecified -> "schema_not_specified"
  | M.ESchemaValidation -> "schema_validation" | M.ESchemaAlreadyExists -> "schema_already_exists"

let sresult_sx = function
  | M.SOk (l, t, hit) -> L [A "ok"; zout l; Histrun.optz t; Histrun.b01 hit]
  | M.SErr e -> L [A "err"; A (serr_name e)]

let sinput_of = function
  | L [A "schema"; v; j; L tpls] ->
    let c = (match M.unmarshal rv (Chartrun.json_of j) with Some c -> c | None -> failwith "chart rejected by the model") in
    M.SInsertSchema (Histrun.str v, c, List.map (function L [n; L ps] -> (Histrun.str n, List.map Histrun.posting_of ps) | _ -> failwith "bad template") tpls)
  | L [A "write"; v; t; op] -> M.SWrite (Histrun.str v, Histrun.str t, Histrun.op_of op)
  | _ -> failwith "bad sinput"

let log_id = function L (id :: _) -> BigZ.of_string (atom id) | _ -> BigZ.zero

let sstate_sx (ss : M.sstate) =
  match Histrun.state_sx ss.M.ss_base with
  | L items ->
    let items = List.map (function
      | L [A "logs"; L logs] ->
        let sl = List.map (fun ((id, date), _) -> L [zout id; A "INSERTED_SCHEMA"; zout date; S ""]) ss.M.ss_slogs in
        L [A "logs"; L (List.sort (fun a b -> BigZ.compare (log_id a) (log_id b)) (logs @ sl))]
      | x -> x) items in
    L items
  | x -> x

let extra_sx (ss : M.sstate) =
  let schemas = List.sort (fun a b -> Histrun.cmp_str a.M.sc_version b.M.sc_version) ss.M.ss_schemas in
  let lv = List.sort (fun (a, _) (b, _) -> Histrun.zcmp a b) ss.M.ss_logver in
  L [L [A "schemas"; L (List.map (fun r -> L [Histrun.qs r.M.sc_version; zout r.M.sc_created]) schemas)];
     L [A "logver"; L (List.map (fun (id, (v, _)) -> L [zout id; Histrun.qs v]) lv)]]

let () = register "schemahist" (function
  | L [A "shist"; A mode; L ops] ->
    let m = if mode = "strict" then M.Strict else M.Audit in
    let rec go ss ops acc = match ops with
      | [] -> List.rev acc
      | L [now; i] :: rest ->
        (match M.sstep rv rm all_on m (zarg now) ss (sinput_of i) with
         | M.SSPanic -> List.rev (L [L [A "panic"]] :: acc)
         | M.SSR (ss', r) -> go ss' rest (L [sresult_sx r; sstate_sx ss'; extra_sx ss'] :: acc))
      | _ -> failwith "bad step" in
    L [A "trace"; L (go M.sinit ops [])]
  | _ -> failwith "bad shist case")

(* TIE-H: results projected on the HTTP answer *)
let shttp_err e = let (st, c) = M.shttp_error e in Histrun.z_str st ^ ":" ^ string_of_chars c
let sresult_sx_http = function
  | M.SOk (_, t, hit) -> L [A "ok"; Histrun.optz t; Histrun.b01 hit]   (* (the status of a success is checked by the harness) *)
  | M.SErr e -> L [A "err"; S (shttp_err e)]
let () = register "schemahisth" (function
  | L [A "shisth"; A mode; L ops] ->
    let m = if mode = "strict" then M.Strict else M.Audit in
    let rec go ss ops acc = match ops with
      | [] -> List.rev acc
      | L [now; i] :: rest ->
        (match M.sstep rv rm all_on m (zarg now) ss (sinput_of i) with
         | M.SSPanic -> List.rev (L [L [A "panic"]] :: acc)
         | M.SSR (ss', r) -> go ss' rest (L [sresult_sx_http r; sstate_sx ss'; extra_sx ss'] :: acc))
      | _ -> failwith "bad step" in
    L [A "trace"; L (go M.sinit ops [])]
  | _ -> failwith "bad shisth case")
