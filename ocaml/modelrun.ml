(* modelrun <command> : reads one case per line on stdin, prints the model's answer per line *)
open Sexp
open Conv

let handlers : (string, Sexp.t -> Sexp.t) Hashtbl.t = Hashtbl.create 16
let register name f = Hashtbl.replace handlers name f

(* ---- alloc: (alloc <amt> ((spec n d)|(rem) ...)) -> (ok (parts...)) | (err kind) ---- *)
let () = register "alloc" (fun c ->
  match c with
  | L [A "alloc"; amt; L ps] ->
    let portion = function
      | L [A "spec"; n; d] -> Model.Specific { Model.qnum = zarg n; Model.qden = pos_of_z (BigZ.of_string (atom d)) }
      | L [A "rem"] -> Model.Remaining
      | _ -> failwith "bad portion" in
    (match Model.new_allotment_checked (List.map portion ps) with
     | Model.Inl Model.TwoRemaining -> L [A "err"; A "two_remaining"]
     | Model.Inl Model.Exceeded -> L [A "err"; A "exceeded"]
     | Model.Inl Model.BadPortion -> L [A "err"; A "portion"]
     | Model.Inr a -> L [A "ok"; L (List.map zout (Model.allocate (zarg amt) a))])
  | _ -> failwith "bad alloc case")

let () = register "hist" Histrun.run_hist

let () =
  let cmd = Sys.argv.(1) in
  let h = try Hashtbl.find handlers cmd with Not_found -> (prerr_endline ("unknown command " ^ cmd); exit 2) in
  (try
    while true do
      let line = input_line stdin in
      if String.length line > 0 then begin
        let out = (try to_string (h (parse line)) with Failure m -> "(model_failure " ^ quote m ^ ")") in
        print_endline out
      end
    done
  with End_of_file -> ())
