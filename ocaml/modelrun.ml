(* modelrun <command> : reads one case per line on stdin, prints the model's answer per line *)
open Sexp
open Conv



let () =
  let cmd = Sys.argv.(1) in
  let h = try Hashtbl.find handlers cmd with Not_found -> (prerr_endline ("unknown command " ^ cmd); exit 2) in
  (try
    while true do
      let line = input_line stdin in
      if String.length line > 0 then begin
        let out = (try to_string (h (parse line)) with Failure m -> "(model_failure " ^ quote m ^ ")") in
        print_endline out
      end
    done
  with End_of_file -> ())
