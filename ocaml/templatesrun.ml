open Sexp
open Conv
(* ---- templates (C37):
   (tplcase <res> <body|nil> ((name type default)...) ((name value)...) <tparams> <rparams> (cfg max default))
     -> (tpl (resolve (ok F)|(err c)) (overwrite (ok P)|(err c)))
   (tplrun <hist> <tplcase>)  -> (tplrun <the line above> (pagesize N|-))   N = page size of the query RunQuery hands to the store *)
let tpl_cs s = chars_of_string s
let tpl_sc l = string_of_chars l

let tpl_res = function
  | A "transactions" -> Model.TpTransactions | A "accounts" -> Model.TpAccounts
  | A "logs" -> Model.TpLogs | A "volumes" -> Model.TpVolumes
  | _ -> failwith "bad resource"

let tpl_base = function
  | A "boolean" -> Model.TpBoolean | A "date" -> Model.TpDate | A "int" -> Model.TpNumeric | A "string" -> Model.TpString
  | _ -> failwith "bad type"

let tpl_val = function
  | A "null" -> Model.TpvNull
  | A "other" -> Model.TpvOther
  | L [A "b"; x] -> Model.TpvBool (atom x = "1")
  | L [A "s"; x] -> Model.TpvStr (tpl_cs (atom x))
  | L [A "n"; x] -> Model.TpvNum (zarg x)
  | L [A "nt"; x] -> Model.TpvNumTxt (tpl_cs (atom x))
  | L [A "f"; x] -> Model.TpvFloat (zarg x)
  | L [A "ff"] -> Model.TpvFloatFrac
  | _ -> failwith "bad value"

let tpl_atom = function
  | A "null" -> Model.TpaNull
  | A "other" -> Model.TpaOther
  | L [A "b"; x] -> Model.TpaBool (atom x = "1")
  | L [A "s"; x] -> Model.TpaStr (tpl_cs (atom x))
  | L [A "i"; x] -> Model.TpaInt (zarg x)
  | _ -> failwith "bad atom"

let tpl_op = function
  | "match" -> Model.TpoMatch | "in" -> Model.TpoIn | "exists" -> Model.TpoExists | "like" -> Model.TpoLike
  | "lt" -> Model.TpoLt | "gt" -> Model.TpoGt | "lte" -> Model.TpoLte | "gte" -> Model.TpoGte
  | _ -> failwith "bad operator"
let tpl_op_out = function
  | Model.TpoMatch -> "match" | Model.TpoIn -> "in" | Model.TpoExists -> "exists" | Model.TpoLike -> "like"
  | Model.TpoLt -> "lt" | Model.TpoGt -> "gt" | Model.TpoLte -> "lte" | Model.TpoGte -> "gte"

let rec tpl_body = function
  | L [A "and"; L l] -> Model.TpAnd (List.map tpl_body l)
  | L [A "or"; L l] -> Model.TpOr (List.map tpl_body l)
  | L [A "not"; x] -> Model.TpNot (tpl_body x)
  | L [A "leaf"; op; k; L [A "l"; L l]] -> Model.TpLeaf (tpl_op (atom op), tpl_cs (atom k), Model.TpjList (List.map tpl_atom l))
  | L [A "leaf"; op; k; v] -> Model.TpLeaf (tpl_op (atom op), tpl_cs (atom k), Model.TpjAtom (tpl_atom v))
  | _ -> failwith "bad body"

let tpl_atom_out = function
  | Model.TpaNull -> A "null"
  | Model.TpaOther -> A "other"
  | Model.TpaBool b -> L [A "b"; A (if b then "1" else "0")]
  | Model.TpaStr s -> L [A "s"; S (tpl_sc s)]
  | Model.TpaInt z -> L [A "i"; zout z]

let rec tpl_body_out = function
  | Model.TpAnd l -> L [A "and"; L (List.map tpl_body_out l)]
  | Model.TpOr l -> L [A "or"; L (List.map tpl_body_out l)]
  | Model.TpNot x -> L [A "not"; tpl_body_out x]
  | Model.TpLeaf (op, k, Model.TpjList l) -> L [A "leaf"; A (tpl_op_out op); S (tpl_sc k); L [A "l"; L (List.map tpl_atom_out l)]]
  | Model.TpLeaf (op, k, Model.TpjAtom a) -> L [A "leaf"; A (tpl_op_out op); S (tpl_sc k); tpl_atom_out a]

let tpl_err_out = function
  | Model.TpeBadVarValue -> "bad_var_value" | Model.TpeBadFieldName -> "bad_field_name" | Model.TpeUnknownField -> "unknown_field"
  | Model.TpeBadIndexing -> "bad_indexing" | Model.TpeMissingVariable -> "missing_variable" | Model.TpeBadType -> "bad_type"
  | Model.TpeBadPlaceholder -> "bad_placeholder" | Model.TpeBadTemplate -> "bad_template" | Model.TpeBadNumber -> "bad_number"
  | Model.TpeExpectedArray -> "expected_array" | Model.TpeExistsNotMap -> "exists_not_map" | Model.TpeBadFieldType -> "bad_field_type"
  | Model.TpeBadSort -> "bad_sort" | Model.TpeBadOrder -> "bad_order" | Model.TpeBadParams -> "bad_params"

let tpl_optz = function A "nil" -> None | x -> Some (zarg x)
let tpl_pj = function
  | A "nil" | A "null" -> None
  | L [A "pj"; e; s; L ex; sort; ps; g; ins] ->
    Some { Model.tpj_end = tpl_optz e; Model.tpj_start = tpl_optz s; Model.tpj_expand = List.map (fun x -> tpl_cs (atom x)) ex;
           Model.tpj_sort = tpl_cs (atom sort); Model.tpj_pagesize = zarg ps; Model.tpj_group = tpl_optz g;
           Model.tpj_insertion = (match ins with A "nil" -> None | x -> Some (atom x = "1")) }
  | _ -> failwith "bad params"

let tpl_optz_out = function None -> A "nil" | Some z -> zout z
let tpl_params_out res (p : Model.tpl_params) =
  L [A "params"; tpl_optz_out p.Model.tpp_pit; tpl_optz_out p.Model.tpp_oot;
     L (List.map (fun s -> S (tpl_sc s)) p.Model.tpp_expand); S (tpl_sc p.Model.tpp_column);
     A (match p.Model.tpp_order with None -> "nil" | Some Model.TpoAsc -> "asc" | Some Model.TpoDesc -> "desc");
     zout p.Model.tpp_pagesize;
     (match res with
      | Model.TpVolumes -> L [A (if p.Model.tpp_opts.Model.tpv_insertion then "1" else "0"); zout p.Model.tpp_opts.Model.tpv_group]
      | _ -> A "-")]

type tpl_parsed = { res : Model.tpl_resource; body : Model.tpl_body option; decls : (char list * Model.tpl_decl) list;
                    vars : (char list * Model.tpl_val) list; tp : Model.tpl_pjson option; rp : Model.tpl_pjson option; cfg : Model.tpl_config }

let tpl_parse = function
  | L [A "tplcase"; res; body; L decls; L vars; tp; rp; L [A "cfg"; mx; df]] ->
    { res = tpl_res res; body = (match body with A "nil" -> None | b -> Some (tpl_body b));
      decls = List.map (function L [n; t; d] -> (tpl_cs (atom n), { Model.tpd_type = tpl_base t; Model.tpd_default = tpl_val d }) | _ -> failwith "bad decl") decls;
      vars = List.map (function L [n; v] -> (tpl_cs (atom n), tpl_val v) | _ -> failwith "bad var") vars;
      tp = tpl_pj tp; rp = tpl_pj rp; cfg = { Model.tpc_max = zarg mx; Model.tpc_default = zarg df } }
  | _ -> failwith "bad tplcase"

let tpl_line c =
  let r = (match Model.tpl_resolve c.res c.body c.decls c.vars with
           | Model.Inl e -> L [A "err"; A (tpl_err_out e)]
           | Model.Inr None -> L [A "ok"; A "nil"]
           | Model.Inr (Some b) -> L [A "ok"; tpl_body_out b]) in
  let o = (match Model.tpl_overwrite (Model.tpl_run_defaults c.res c.cfg) [c.tp; c.rp] with
           | Model.Inl e -> L [A "err"; A (tpl_err_out e)]
           | Model.Inr p -> L [A "ok"; tpl_params_out c.res p]) in
  L [A "tpl"; L [A "resolve"; r]; L [A "overwrite"; o]]

let () = register "templates" (fun sx ->
  match sx with
  | L [A "tplrun"; _; c] ->
    let c = tpl_parse c in
    let ps = (match Model.tpl_run_plan c.res c.body c.decls c.vars c.tp c.rp c.cfg with
              | Model.Inl _ -> A "-"
              | Model.Inr q -> zout (Model.tpl_normalize c.res q).Model.tq_pagesize) in
    L [A "tplrun"; tpl_line c; L [A "pagesize"; ps]]
  | c -> tpl_line (tpl_parse c))
