(* conversions between OCaml/Zarith values and the extracted Coq datatypes *)
module BigZ = Z
open Model

let rec pos_of_z (z : BigZ.t) : positive =
  if BigZ.equal z BigZ.one then XH
  else if BigZ.is_even z then XO (pos_of_z (BigZ.shift_right z 1))
  else XI (pos_of_z (BigZ.shift_right z 1))

let coqz_of_z (z : BigZ.t) : Model.z =
  if BigZ.sign z = 0 then Z0 else if BigZ.sign z > 0 then Zpos (pos_of_z z) else Zneg (pos_of_z (BigZ.neg z))

let rec z_of_pos (p : positive) : BigZ.t = match p with
  | XH -> BigZ.one
  | XO q -> BigZ.shift_left (z_of_pos q) 1
  | XI q -> BigZ.succ (BigZ.shift_left (z_of_pos q) 1)

let z_of_coqz (z : Model.z) : BigZ.t = match z with
  | Z0 -> BigZ.zero | Zpos p -> z_of_pos p | Zneg p -> BigZ.neg (z_of_pos p)

let coqz_of_string s = coqz_of_z (BigZ.of_string s)
let string_of_coqz z = BigZ.to_string (z_of_coqz z)

let rec nat_of_int n = if n <= 0 then O else Model.S (nat_of_int (n - 1))
let rec int_of_nat = function O -> 0 | Model.S n -> 1 + int_of_nat n

let chars_of_string (s : string) : char list = List.init (String.length s) (String.get s)
let string_of_chars (l : char list) : string = String.init (List.length l) (List.nth l)
let string_of_chars (l : char list) : string =
  let b = Buffer.create 16 in List.iter (Buffer.add_char b) l; Buffer.contents b

open Sexp
let atom = function A a -> a | S s -> s | L _ -> failwith "atom expected"
let lst = function L l -> l | _ -> failwith "list expected"
let zarg x = coqz_of_string (atom x)
let zout z = A (string_of_coqz z)

(* command registry (shared by every extraction unit): see reg.ml *)
let handlers = Reg.handlers
let register = Reg.register
