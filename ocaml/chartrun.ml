(* glue for the chart model (Ledger/Chart.v): (chart <json> (addr...) ((src dst)...)) ->
   (err) | (ok <chart> (cls...) (posting verdicts...) <marshalled json>).
   re_valid / re_match are instantiated by the small-pattern matcher written in Coq (re_valid_small / re_match_small). *)
open Sexp
open Conv
module M = Model

let cstr x = chars_of_string (atom x)
let cqs (l : char list) = S (string_of_chars l)

let rec json_of = function
  | A "null" -> M.JNull
  | L [A "b"; b] -> M.JBool (atom b = "1")
  | L [A "n"; n] -> M.JNum (cstr n)
  | L [A "s"; s] -> M.JStr (cstr s)
  | L [A "a"; L l] -> M.JArr (List.map json_of l)
  | L [A "o"; L l] -> M.JObj (List.map (function L [k; v] -> (cstr k, json_of v) | _ -> failwith "bad member") l)
  | _ -> failwith "bad json"

let rec json_sx = function
  | M.JNull -> A "null"
  | M.JBool b -> L [A "b"; A (if b then "1" else "0")]
  | M.JNum n -> L [A "n"; cqs n]
  | M.JStr s -> L [A "s"; cqs s]
  | M.JArr l -> L [A "a"; L (List.map json_sx l)]
  | M.JObj l -> L [A "o"; L (List.map (fun (k, v) -> L [cqs k; json_sx v]) l)]

let cmp_cstr (a : char list) (b : char list) = compare (string_of_chars a) (string_of_chars b)

let rec seg_sx (M.Seg (fixed, var, acct)) =
  let fixed = List.sort (fun (a, _) (b, _) -> cmp_cstr a b) fixed in
  L [A "seg";
     L (List.map (fun (k, s) -> L [cqs k; seg_sx s]) fixed);
     (match var with
      | None -> A "nil"
      | Some ((l, p), s) -> L [cqs l; (match p with None -> A "nil" | Some p -> L [A "some"; cqs p]); seg_sx s]);
     (match acct with
      | None -> A "nil"
      | Some a -> L [A "account"; (match M.ca_meta a with
                                   | None -> A "nil"
                                   | Some m ->
                                     let m = List.sort (fun (a, _) (b, _) -> cmp_cstr a b) m in
                                     L [A "map"; L (List.map (fun (k, d) -> L [cqs k; (match d with None -> A "nil" | Some v -> L [A "some"; cqs v])]) m)])])]

let chart_sx (c : M.chart) =
  L (List.map (fun (k, s) -> L [cqs k; seg_sx s]) (List.sort (fun (a, _) (b, _) -> cmp_cstr a b) c))

let cls_sx = function
  | M.CAccept dm -> L [A "acc"; L (List.map (fun (k, v) -> L [cqs k; cqs v]) (List.sort (fun (a, _) (b, _) -> cmp_cstr a b) dm))]
  | M.CReject pm -> L [A "rej"; A (if pm then "1" else "0")]

let rv = M.re_valid_small
let rm = M.re_match_small

let () = register "chart" (function
  | L [A "chart"; j; L addrs; L posts] ->
    (match M.unmarshal rv (json_of j) with
     | None -> L [A "err"]
     | Some c ->
       L [A "ok"; chart_sx c;
          L (List.map (fun a -> cls_sx (M.classify rv rm c (cstr a))) addrs);
          L (List.map (function
               | L [s; d] -> (match M.validate_posting rv rm c (cstr s) (cstr d) with
                              | None -> A "ok"
                              | Some pm -> L [A "rej"; A (if pm then "1" else "0")])
               | _ -> failwith "bad posting") posts);
          json_sx (M.marshal c)])
  | _ -> failwith "bad chart case")
