(* command registry: every <x>run.ml registers its handlers at load time; modelrun.ml is the main loop *)
let handlers : (string, Sexp.t -> Sexp.t) Hashtbl.t = Hashtbl.create 16
let register name f = Hashtbl.replace handlers name f
